import sys, os, argparse
sys.path.insert(0, os.path.dirname(os.path.abspath(__file__)))
import core

def main():
    ap = argparse.ArgumentParser()
    ap.add_argument("pid"); ap.add_argument("--tier", default=os.environ.get("VERIF_TIER", "quick")); ap.add_argument("--replay", default=None)
    a = ap.parse_args()
    seed = int(os.environ.get("VERIF_SEED", "1") or 1)
    tier = a.tier if a.tier in ("quick", "thorough") else "quick"
    rc = core.run_check(a.pid, tier, seed, a.replay)
    sys.exit(rc)

if __name__ == "__main__":
    main()
