"""core.py — driver shared by all property checks: runner protocol, case rendering, Hypothesis fan-out,
evidence aggregation, violation / known-finding protocol."""
import os, sys, json, time, hashlib, subprocess, re, math, traceback, multiprocessing as mp

VERIF = os.path.dirname(os.path.dirname(os.path.abspath(__file__)))
REPO = os.environ.get("VERIF_REPO", "/repo")

RUN_ENV = dict(os.environ)
RUN_ENV.update({
    "ASAN_OPTIONS": "detect_leaks=0:abort_on_error=0:exitcode=86:allocator_may_return_null=1:detect_stack_use_after_return=0:malloc_context_size=8",
    "UBSAN_OPTIONS": "print_stacktrace=1:halt_on_error=1:exitcode=87",
    "OPENBLAS_NUM_THREADS": "1", "OMP_NUM_THREADS": "8", "OMP_DYNAMIC": "false",
})


def build(variant):
    r = subprocess.run([os.path.join(VERIF, "bin", "build"), variant], capture_output=True, text=True)
    if r.returncode != 0:
        sys.stdout.write(r.stdout[-3000:]); sys.stderr.write(r.stderr[-6000:])
        raise SystemExit("build of variant %s failed (exit %d) — the tree does not compile with the hooks on" % (variant, r.returncode))
    return os.path.join(VERIF, ".build", variant, "runner")


class Runner:
    def __init__(self, variant="asan"):
        self.path = os.path.join(VERIF, ".build", variant, "runner")
        self.variant = variant
        self.p = None

    def start(self):
        self.p = subprocess.Popen([self.path], stdin=subprocess.PIPE, stdout=subprocess.PIPE, env=RUN_ENV, bufsize=0)

    def run(self, text):
        if self.p is None or self.p.poll() is not None:
            self.start()
        data = (text if text.endswith("\n") else text + "\n") + "end\n"
        try:
            self.p.stdin.write(data.encode())
            # the runner enforces the case's own time-out; this guard only covers a runner that stops answering at all
            import select, re as _re
            m = _re.search(r"^set timeout_ms (\d+)", text, _re.M)
            guard = (int(m.group(1)) / 1000.0 if m else 60.0) * 2 + 120.0
            rd, _, _ = select.select([self.p.stdout], [], [], guard)
            if not rd:
                try: self.p.kill()
                except Exception: pass
                self.p = None
                return {"v": "timeout", "sig": "timeout", "detail": "runner did not answer within %.0f s (killed and restarted)" % guard, "f": {}}
            line = self.p.stdout.readline()
        except (BrokenPipeError, OSError):
            line = b""
        if not line:
            self.p = None
            return {"v": "error", "sig": "runner_died", "detail": "", "f": {}}
        try:
            return json.loads(line.decode(errors="replace"))
        except Exception:
            return {"v": "error", "sig": "bad_json", "detail": line.decode(errors="replace")[:500], "f": {}}

    def close(self):
        if self.p:
            try:
                self.p.stdin.close(); self.p.wait(timeout=5)
            except Exception:
                self.p.kill()
            self.p = None


def fhex(x):
    x = float(x)
    if x != x or x in (float("inf"), float("-inf")):
        return repr(x)
    return x.hex()


def render(case):
    """case: dict with 'set' (dict), optional 'entries' [(i,j,re,im)], 'b' [(re,im)], 'pc' [..], 'lists' {name:[..]}, 'ops' [..], 'blob' bytes"""
    out = []
    for k, v in case["set"].items():
        out.append("set %s %s" % (k, v))
    for (i, j, re_, im_) in case.get("entries", ()):
        out.append("e %d %d %s %s" % (i, j, fhex(re_), fhex(im_)))
    for (re_, im_) in case.get("b", ()):
        out.append("b %s %s" % (fhex(re_), fhex(im_)))
    if case.get("pc") is not None:
        out.append("pc " + " ".join(str(int(x)) for x in case["pc"]))
    for name, vals in (case.get("lists") or {}).items():
        vals = list(vals)
        for k in range(0, max(len(vals), 1), 200):
            out.append("list %s %s" % (name, " ".join(fhex(v) for v in vals[k:k + 200])))
    for op in case.get("ops", ()):
        out.append("op " + op)
    blob = case.get("blob")
    if blob:
        for k in range(0, len(blob), 4000):
            out.append("blobhex " + blob[k:k + 4000].hex())
    return "\n".join(out) + "\n"


def case_hash(text):
    return hashlib.sha1(text.encode()).hexdigest()[:16]


# ---------------------------------------------------------------------------------------------- known findings
def load_known():
    p = os.path.join(VERIF, "known_findings.json")
    if not os.path.exists(p):
        return {"findings": [], "fixed": []}
    return json.load(open(p))


def match_known(known, pid, sig, detail=""):
    for f in known.get("findings", []):
        if f["property"] == pid and re.search(f["signature_regex"], sig + " " + (detail or "")[:2000]):
            return f
    return None


def is_failure(v):
    return v.get("v") in ("fail", "crash")


# ---------------------------------------------------------------------------------------------- worker
class Stats:
    def __init__(self):
        self.evaluations = 0; self.skips = 0; self.timeouts = 0; self.errors = 0
        self.nt_hashes = set(); self.all_hashes = set()
        self.classes = {}; self.samples = []; self.known_hits = {}
        self.fail_first = None; self.fail_last = None; self.target_sig = None
        self.feature_sums = {}

    def merge(self, o):
        self.evaluations += o["evaluations"]; self.skips += o["skips"]; self.timeouts += o["timeouts"]; self.errors += o["errors"]
        self.nt_hashes |= set(o["nt_hashes"]); self.all_hashes |= set(o["all_hashes"])
        for k, v in o["classes"].items():
            self.classes[k] = self.classes.get(k, 0) + v
        for k, v in o["known_hits"].items():
            self.known_hits[k] = self.known_hits.get(k, 0) + v
        for smp in o["samples"]:
            if len(self.samples) < 8:
                self.samples.append(smp)

    def dump(self):
        return {"evaluations": self.evaluations, "skips": self.skips, "timeouts": self.timeouts, "errors": self.errors,
                "nt_hashes": list(self.nt_hashes), "all_hashes": list(self.all_hashes), "classes": self.classes,
                "samples": self.samples, "known_hits": self.known_hits}


def sig_class(sig):
    return sig


def _worker(args):
    (modname, tier, seed, widx, nexamples, variant, time_budget, outdir) = args
    import importlib
    from hypothesis import given, settings, seed as hseed, HealthCheck, Phase, Verbosity
    mod = importlib.import_module("props." + modname)
    known = load_known()
    st = Stats()
    runner = Runner(variant); runner.start()
    t_end = time.time() + time_budget
    state = {"truncated": False}

    def one(case):
        if time.time() > t_end:
            state["truncated"] = True
            return
        case = dict(case); case["set"] = dict(case["set"]); case["set"].setdefault("prop", mod.ID)
        if hasattr(mod, "evaluate"):
            for (text, v) in mod.evaluate(case, runner):
                account(case, text, v)
            return
        text = render(case)
        v = runner.run(text)
        account(case, text, v)

    def account(case, text, v):
        h = case_hash(text)
        vv = v.get("v")
        if vv == "skip":
            st.skips += 1
            lab = "skip:" + (v.get("detail") or "")[:40]
            st.classes[lab] = st.classes.get(lab, 0) + 1
            return
        if vv == "timeout":
            st.timeouts += 1
            if getattr(mod, "TIMEOUT_IS_FAILURE", False):
                v = dict(v); v["v"] = "fail"; v["sig"] = "timeout:no_verdict"; vv = "fail"
            else:
                return
        if vv == "error":
            st.errors += 1
            return
        if vv == "libexit" and getattr(mod, "LIBEXIT_IS_FAILURE", False):
            v = dict(v); v["v"] = "fail"; vv = "fail"
        st.evaluations += 1; st.all_hashes.add(h)
        try:
            for lab in mod.classify(case, v):
                st.classes[lab] = st.classes.get(lab, 0) + 1
            nt = bool(mod.nontrivial(case, v))
        except Exception:
            nt = False
        if nt:
            st.nt_hashes.add(h)
            if len(st.samples) < 3:
                st.samples.append({"case": text if len(text) < 3000 else text[:3000] + "...(truncated)", "verdict": v.get("v"), "features": v.get("f", {})})
        if is_failure(v):
            sig = v.get("sig", "")
            kf = match_known(known, mod.ID, sig, v.get("detail", ""))
            if kf is not None:
                key = kf["signature_regex"]
                st.known_hits[key] = st.known_hits.get(key, 0) + 1
                return
            if st.target_sig is None:
                st.target_sig = sig_class(sig)
                st.fail_first = {"text": text, "verdict": v}
            if sig_class(sig) == st.target_sig:
                st.fail_last = {"text": text, "verdict": v}
                raise AssertionError("violation: " + sig)

    strat = mod.strategy(tier)
    test = given(strat)(one)
    test = hseed(seed * 1000003 + widx * 7919 + 17)(test)
    test = settings(max_examples=nexamples, database=None, deadline=None, derandomize=False, report_multiple_bugs=False,
                    suppress_health_check=list(HealthCheck), phases=[Phase.generate, Phase.shrink], verbosity=Verbosity.quiet,
                    stateful_step_count=50)(test)
    failed = False; err = None
    try:
        test()
    except AssertionError:
        failed = True
    except BaseException as e:   # Hypothesis internal errors (Unsatisfiable, Flaky ...)
        if st.fail_last is not None:
            failed = True
        else:
            err = "%s: %s" % (type(e).__name__, str(e)[:300])
    runner.close()
    res = st.dump()
    res["failed"] = failed; res["error"] = err; res["truncated"] = state["truncated"]
    res["fail_first"] = st.fail_first; res["fail_last"] = st.fail_last
    res["widx"] = widx
    return res


# ---------------------------------------------------------------------------------------------- main driver
def run_text(runner, text, mod=None):
    """one evaluation of a saved case text; properties whose oracle needs more than one execution (differential checks)
    provide replay_text(text, runner)"""
    if mod is not None and hasattr(mod, "replay_text"):
        return mod.replay_text(text, runner)
    return runner.run(text)


def replay_file(runner, path, mod=None):
    text = open(path).read()
    return run_text(runner, text, mod), text


def confirm(variant, text, times, pid=None, known=None, timeout_fails=False, mod=None):
    r = Runner(variant); r.start(); fails = 0; last = None
    for _ in range(times):
        v = run_text(r, text, mod)
        if timeout_fails and v.get("v") == "timeout":
            v = dict(v); v["v"] = "fail"; v["sig"] = "timeout:no_verdict"
        if is_failure(v):
            if known is not None and match_known(known, pid, v.get("sig", ""), v.get("detail", "")) is not None:
                continue
            fails += 1; last = v
    r.close()
    return fails, last


def run_check(modname, tier, seed, replay=None):
    import importlib
    sys.path.insert(0, os.path.join(VERIF, "gen"))
    mod = importlib.import_module("props." + modname)
    pid = mod.ID
    t0 = time.time()
    budget = mod.BUDGET[tier]
    variants = budget.get("variants", ["asan"])
    if os.environ.get("VERIF_VARIANTS"):      # experimentation knob (not used by the registered commands)
        variants = os.environ["VERIF_VARIANTS"].split(","); budget = dict(budget); budget.pop("variant_share", None)
    notes = []
    built = []
    for v in variants:
        try:
            build(v); built.append(v)
        except SystemExit as e:
            # the default variant must build; a secondary configuration (OpenMP, 64-bit indices, ...) that does not compile is
            # recorded and left out, the search goes on with the others
            if v == variants[0]: raise
            notes.append("variant %s does not build on this tree and was left out: %s" % (v, e))
    variants = built
    known = load_known()
    violations = []; known_lines = {}
    total = Stats()

    # ---- replay mode
    if replay:
        r = Runner(variants[0]); r.start()
        v, text = replay_file(r, replay, mod); r.close()
        print(json.dumps(v)[:3000])
        if is_failure(v):
            kf = match_known(known, pid, v.get("sig", ""), v.get("detail", ""))
            if kf:
                print("KNOWN-FINDING: property=%s %s" % (pid, kf["what"])); return 0
            print("VIOLATION property=%s replay=%s" % (pid, replay)); return 1
        return 0

    # ---- regression tier: saved replays for this property
    rdir = os.path.join(VERIF, "replays")
    reg = sorted(f for f in os.listdir(rdir) if f.endswith(".case") and (f.startswith(pid + "_") or f in getattr(mod, "EXTRA_REPLAYS", ())))
    nreg = 0
    if reg:
        r = Runner(variants[0]); r.start()
        for f in reg:
            path = os.path.join(rdir, f)
            v, text = replay_file(r, path, mod); nreg += 1
            if is_failure(v):
                kf = match_known(known, pid, v.get("sig", ""), v.get("detail", ""))
                if kf:
                    known_lines[kf["signature_regex"]] = kf
                else:
                    violations.append((path, v))
            elif v.get("v") in ("pass", "libexit"):
                total.evaluations += 1
        r.close()

    # ---- generated search
    W = budget.get("workers", 14)
    jobs = []
    per = budget["examples"]
    tb = budget.get("time_budget", 100)
    k = 0
    for variant in variants:
        share = budget.get("variant_share", {}).get(variant, 1.0 / len(variants))
        nw = max(1, int(round(W * share)))
        for w in range(nw):
            jobs.append((modname, tier, seed, k, max(1, int(per * share) // nw if budget.get("split", True) else per), variant, tb, None)); k += 1
    if hasattr(mod, "extra_jobs"):
        pass
    ctx = mp.get_context("fork")
    with ctx.Pool(processes=min(len(jobs), 16)) as pool:
        results = pool.map(_worker, jobs, chunksize=1)
    worker_errors = []
    confirmed_sigs = set()
    for (job, res) in zip(jobs, results):
        total.merge(res)
        if res.get("error"):
            worker_errors.append(res["error"])
        if res.get("truncated"):
            notes.append("worker %d hit its wall-clock budget (inconclusive beyond the cases counted)" % res["widx"])
        if res["failed"] and res["fail_last"]:
            fl = res["fail_last"]; variant = job[5]
            fsig = fl["verdict"].get("sig", "")
            if fsig in confirmed_sigs:
                continue                      # one confirmation per distinct signature
            tof = getattr(mod, "TIMEOUT_IS_FAILURE", False)
            times = 3
            fails, last = confirm(variant, fl["text"], times, pid, known, tof, mod)
            text = fl["text"]
            if fails == 0 and res["fail_first"]:
                fails, last = confirm(variant, res["fail_first"]["text"], 10, pid, known, tof, mod)
                text = res["fail_first"]["text"]
            if fails > 0:
                confirmed_sigs.add(fsig)
            if fails > 0:
                os.makedirs(os.path.join(rdir, "found"), exist_ok=True)
                path = os.path.join(rdir, "found", "%s_%s.case" % (pid, case_hash(text)))
                open(path, "w").write(text)
                violations.append((path, last))
            else:
                notes.append("a failure seen once did not reproduce in %d replays (not reported): %s" % (10, fl["verdict"].get("sig")))
    for key, cnt in total.known_hits.items():
        for f in known.get("findings", []):
            if f["property"] == pid and f["signature_regex"] == key:
                known_lines[key] = f

    # ---- dedicated confirmation of each listed finding (witness replay)
    for f in known.get("findings", []):
        if f["property"] != pid or f["signature_regex"] in known_lines:
            continue
        wpath = os.path.join(VERIF, f.get("witness", ""))
        if f.get("witness") and os.path.exists(wpath):
            r = Runner(variants[0]); r.start(); v, _ = replay_file(r, wpath, mod); r.close()
            if is_failure(v) and match_known(known, pid, v.get("sig", ""), v.get("detail", "")) is f:
                known_lines[f["signature_regex"]] = f

    extra_cov = {}
    if hasattr(mod, "extra_phase"):
        try:
            ex = mod.extra_phase(tier, seed)
        except Exception as e:
            ex = {"error": "%s" % e}
            notes.append("extra phase error: %s" % traceback.format_exc()[-400:])
        if ex:
            for (path, v) in ex.pop("violations", []):
                violations.append((path, v))
            total.evaluations += ex.pop("evaluations", 0)
            extra_nt = ex.pop("distinct_nontrivial", 0)
            extra_cov = ex
            extra_cov["_nt"] = extra_nt

    wall = time.time() - t0
    nt = len(total.nt_hashes) + extra_cov.pop("_nt", 0)
    cov = {
        "evaluations": total.evaluations, "distinct_nontrivial": nt, "distinct_cases": len(total.all_hashes),
        "rule": mod.RULE, "samples": total.samples[:6] if total.samples else [{"note": "no non-trivial sample recorded"}],
        "classes": dict(sorted(total.classes.items(), key=lambda kv: -kv[1])[:60]),
        "skipped": total.skips, "timeouts_inconclusive": total.timeouts, "runner_errors": total.errors,
        "regression_replays": nreg, "known_finding_hits": total.known_hits, "workers": len(jobs), "variants": variants,
        "examples_per_worker": jobs[0][4] if jobs else 0, "notes": notes, "worker_errors": worker_errors[:5],
    }
    cov.update(extra_cov)
    ev = {"property_id": pid, "tier": tier, "seed": int(seed), "level": getattr(mod, "LEVEL", "exploration"), "coverage": cov,
          "assumptions": getattr(mod, "ASSUMPTIONS", []), "wall_s": round(wall, 2), "violations": len(violations)}
    os.makedirs(os.path.join(VERIF, "evidence"), exist_ok=True)
    json.dump(ev, open(os.path.join(VERIF, "evidence", pid + ".json"), "w"), indent=1)
    print("%s %s: evaluations=%d distinct_nontrivial=%d skipped=%d timeouts=%d wall=%.1fs" % (pid, tier, total.evaluations, nt, total.skips, total.timeouts, wall))
    for f in known_lines.values():
        print("KNOWN-FINDING: property=%s %s" % (pid, f["what"]))
    if worker_errors:
        print("note: worker errors: %s" % worker_errors[:3])
    if violations:
        seen = set(); uniq = []
        for (path, v) in violations:
            key = v.get("sig")
            if key in seen: continue
            seen.add(key); uniq.append((path, v))
        violations = uniq
        for (path, v) in violations:
            print("  failing verdict: %s | %s" % (v.get("sig"), (v.get("detail") or "")[:400].replace("\n", " ")))
            print("VIOLATION property=%s replay=%s" % (pid, path))
        return 1
    if total.evaluations == 0 or worker_errors:
        print("ERROR: harness problem (evaluations=%d, worker errors=%s)" % (total.evaluations, worker_errors[:2])); return 2
    return 0
