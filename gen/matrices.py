"""matrices.py — Hypothesis strategies for sparse test matrices.  Shape parameters and a fill seed are drawn by
Hypothesis (so they shrink); the bulk fill is expanded deterministically from the drawn seed with numpy."""
import math
import numpy as np
from hypothesis import strategies as st

FAMILIES = ["random", "banded", "arrow", "blockdiag", "chain", "star", "grid", "staircase", "dense", "dupstruct", "forest"]


def _pattern(family, n, p1, p2, rng):
    """returns set of (i,j) off-transversal candidate positions (diagonal-based; permuted later)"""
    S = set()
    if family == "random":
        k = max(0, int(p1 * n * 3))           # about 0..3 extra entries per column
        for _ in range(k):
            S.add((int(rng.integers(n)), int(rng.integers(n))))
    elif family == "banded":
        lo = 1 + int(p1 * 3); up = 1 + int(p2 * 3)
        for j in range(n):
            for d in range(1, lo + 1):
                if j + d < n and rng.random() < 0.8: S.add((j + d, j))
            for d in range(1, up + 1):
                if j - d >= 0 and rng.random() < 0.8: S.add((j - d, j))
    elif family == "arrow":
        first = p1 < 0.5
        r = 0 if first else n - 1
        for j in range(n):
            if p2 < 0.7: S.add((r, j))
            if p2 > 0.3: S.add((j, r))
        for j in range(n - 1):
            if rng.random() < 0.3: S.add((j + 1, j))
    elif family == "blockdiag":
        bs = 2 + int(p1 * 6)
        for b0 in range(0, n, bs):
            b1 = min(n, b0 + bs)
            for j in range(b0, b1):
                for i in range(b0, b1):
                    if i != j and rng.random() < 0.6: S.add((i, j))
        nc = int(p2 * 4)
        for _ in range(nc * max(1, n // bs)):
            S.add((n - 1 - int(rng.integers(min(n, 3))), int(rng.integers(n))))
            S.add((int(rng.integers(n)), n - 1 - int(rng.integers(min(n, 3)))))
    elif family == "chain":
        for j in range(n - 1):
            S.add((j + 1, j))
            if p1 > 0.5: S.add((j, j + 1))
    elif family == "star":
        c = n - 1
        for j in range(n - 1):
            S.add((c, j))
            if p1 > 0.4: S.add((j, c))
    elif family == "grid":
        w = max(2, int(math.sqrt(n)))
        for v in range(n):
            x, y = v % w, v // w
            for (dx, dy) in ((1, 0), (0, 1), (-1, 0), (0, -1)):
                u = (x + dx) + (y + dy) * w
                if 0 <= x + dx < w and 0 <= u < n and rng.random() < 0.5 + 0.5 * p1:
                    S.add((u, v))
    elif family == "staircase":
        step = 2 + int(p1 * 8)
        for j in range(n):
            top = (j // step) * step
            for i in range(top, n):
                if i != j and (i < top + step or rng.random() < 0.15 + 0.5 * p2): S.add((i, j))
    elif family == "dense":
        for j in range(n):
            for i in range(n):
                if i != j and rng.random() < 0.5 + 0.5 * p1: S.add((i, j))
    elif family == "dupstruct":
        base = [int(rng.integers(n)) for _ in range(2 + int(p1 * 3))]
        for j in range(n):
            for i in base:
                if i != j: S.add((i, j))
            if rng.random() < p2: S.add((int(rng.integers(n)), j))
    elif family == "forest":
        # several independent subtrees joined at the end: wide elimination forests
        nb = 2 + int(p1 * 5); bs = max(1, (n - 2) // nb)
        for b in range(nb):
            b0 = b * bs; b1 = min(n - 2, b0 + bs) if b < nb - 1 else max(b0, n - 2)
            for j in range(b0, b1 - 1):
                S.add((j + 1, j))
                if rng.random() < p2: S.add((min(b1 - 1, j + 2), j))
            if b1 - 1 >= b0 and n >= 2:
                S.add((n - 2 + int(rng.integers(2)), max(b0, b1 - 1)))
        if n >= 2: S.add((n - 1, n - 2))
    return S


def expand(family, n, p1, p2, fill_seed, valdist, zero_diag, permute, cplx, single, extra_entries=()):
    """returns list of (i, j, re, im) — structurally nonsingular (planted transversal); values by valdist"""
    rng = np.random.default_rng(fill_seed)
    S = _pattern(family, n, p1, p2, rng)
    for (i, j) in extra_entries:
        if 0 <= i < n and 0 <= j < n: S.add((i, j))
    S = {(i, j) for (i, j) in S if i != j}
    # transversal
    if zero_diag and n > 1:
        sigma = np.roll(np.arange(n), 1 + int(rng.integers(n - 1)))   # a cyclic shift: no fixed points
    else:
        sigma = np.arange(n)
    T = {(int(sigma[j]), j) for j in range(n)}
    S -= T
    # optional symmetric/unsymmetric permutation of the whole pattern
    if permute:
        pr = rng.permutation(n); pcn = rng.permutation(n) if permute == 2 else pr
        S = {(int(pr[i]), int(pcn[j])) for (i, j) in S}
        T = {(int(pr[i]), int(pcn[j])) for (i, j) in T}
    ent = []
    colsum = {}

    def val(scale=1.0):
        if valdist == "wide":
            m = float(2.0 ** rng.integers(-8 if single else -20, 9 if single else 21)) * scale
        elif valdist == "int":
            m = float(rng.integers(1, 4)) * scale
        else:
            m = float(rng.uniform(0.1, 1.0)) * scale
        re_ = m * (1 if rng.random() < 0.5 else -1)
        im_ = 0.0
        if cplx:
            im_ = float(rng.uniform(-1, 1)) * m
        return re_, im_

    for (i, j) in sorted(S):
        re_, im_ = val()
        ent.append([i, j, re_, im_]); colsum[j] = colsum.get(j, 0.0) + abs(re_) + abs(im_)
    rowsum = {}
    for (i, j, re_, im_) in ent:
        rowsum[i] = rowsum.get(i, 0.0) + abs(re_) + abs(im_)
    for (i, j) in sorted(T):
        if valdist == "rowdom":
            m = rowsum.get(i, 0.0) * 1.25 + 0.05
            re_ = m * (1 if rng.random() < 0.5 else -1); im_ = (float(rng.uniform(-0.3, 0.3)) * m) if cplx else 0.0
        elif valdist in ("dominant", "int"):
            m = max(colsum.get(j, 0.0), rowsum.get(i, 0.0)) * 1.25 + 1.0
            if valdist == "int": m = float(math.ceil(m))
            re_ = m * (1 if rng.random() < 0.5 else -1); im_ = (float(rng.uniform(-0.3, 0.3)) * m) if cplx else 0.0
        elif valdist == "wide":
            re_, im_ = val(4.0)
        else:
            re_, im_ = val(1.0); re_ *= 1.5
        ent.append([i, j, re_, im_])
    if single:
        for e in ent:
            e[2] = float(np.float32(e[2])); e[3] = float(np.float32(e[3]))
    return [tuple(e) for e in ent]


@st.composite
def recipe(draw, nmin=1, nmax=40, families=None, valdists=("generic", "dominant", "wide"), allow_zero_diag=True):
    fam = draw(st.sampled_from(families or FAMILIES))
    n = draw(st.integers(nmin, nmax))
    return {
        "family": fam, "n": n,
        "p1": draw(st.floats(0, 1, allow_nan=False, width=16)), "p2": draw(st.floats(0, 1, allow_nan=False, width=16)),
        "fill_seed": draw(st.integers(0, 2 ** 32 - 1)),
        "valdist": draw(st.sampled_from(list(valdists))),
        "zero_diag": draw(st.booleans()) if allow_zero_diag else False,
        "permute": draw(st.sampled_from([0, 0, 1, 2])),
    }


def entries_of(rec, prec, extra=()):
    return expand(rec["family"], rec["n"], rec["p1"], rec["p2"], rec["fill_seed"], rec["valdist"], rec["zero_diag"], rec["permute"],
                  prec in "cz", prec in "sc", extra)


@st.composite
def explicit_small(draw, nmax=8, cplx=False):
    """fully explicit entry lists so that Hypothesis can delete single entries while shrinking"""
    n = draw(st.integers(1, nmax))
    pos = draw(st.lists(st.tuples(st.integers(0, n - 1), st.integers(0, n - 1)), max_size=3 * n, unique=True))
    perm = draw(st.permutations(list(range(n))))
    vals = st.floats(-4, 4, allow_nan=False, width=32).filter(lambda x: abs(x) > 1e-3)
    ent = {}
    for (i, j) in pos:
        ent[(i, j)] = (draw(vals), draw(vals) if cplx else 0.0)
    for j in range(n):
        v = draw(vals)
        ent[(perm[j], j)] = (v + (6.0 if v > 0 else -6.0), draw(vals) if cplx else 0.0)
    return n, [(i, j, re_, im_) for ((i, j), (re_, im_)) in sorted(ent.items())]


def shuffle_within_columns(entries, seed, by_row=False):
    """unsorted row indices inside each column are legal input: permute the file order within each major index"""
    rng = np.random.default_rng(seed)
    key = 0 if by_row else 1
    groups = {}
    for e in entries:
        groups.setdefault(e[key], []).append(e)
    out = []
    for k in sorted(groups):
        g = groups[k]; rng.shuffle(g); out.extend(g)
    return out


tunables = st.fixed_dictionaries({
    "panel": st.sampled_from([1, 1, 2, 2, 3, 4, 8]),
    "relax": st.sampled_from([1, 1, 2, 3, 4, 6]),
    "maxsuper": st.sampled_from([1, 2, 3, 4, 8, 16, 40]),
    "rowblk": st.sampled_from([1, 2, 4, 8, 200]),
    "colblk": st.sampled_from([1, 2, 3, 8, 100]),
})


def fix_tunables(t):
    t = dict(t)
    if t["relax"] > t["maxsuper"]:
        t["maxsuper"] = t["relax"]        # implicit precondition relax <= maxsuper (see DESIGN §3)
    return t


@st.composite
def schedule(draw, pmin=1, pmax=4, modes=("controlled", "controlled", "controlled", "free")):
    P = draw(st.sampled_from([p for p in (1, 2, 2, 3, 3, 4, 4, 6, 8) if pmin <= p <= pmax]))
    d = {"P": P}
    if P >= 2:
        d["sched"] = draw(st.sampled_from(list(modes)))
        d["strategy"] = draw(st.sampled_from(["uniform", "sticky", "pct", "pct"]))
        d["sparam"] = draw(st.integers(0, 6))
        d["sched_seed"] = draw(st.integers(1, 2 ** 31 - 1))
        if d["sched"] == "free":
            d["delay_us"] = draw(st.sampled_from([20, 100, 300]))
    else:
        d["sched"] = "none"
    return d
