"""C05 — memory safety: predicted bound on L never exceeded; arrays suffice; small estimates stop with a diagnostic"""
from hypothesis import strategies as st
from props.common import factor_case, std_classes

ID = "C05"
LEVEL = "exploration"
RULE = ("cases = all pattern families incl. not-strong-Hall, zero diagonals, dense rows/columns, duplicated structure x adversarial value "
        "magnitudes (2^±20, so that every run takes a different pivot sequence) x static/dynamic supernode storage x small maxsuper, "
        "panel >= n, relax up to 6 x fill estimates sp_ienv(6..8) from tiny absolute values to generous factors x s/d/c/z x nprocs x "
        "schedules, plus refactorization histories (first / refactor with new pivots / solve) under tight U and L-subscript estimates; oracle = no ASan/UBSan report in the forked child, slot-bound monitor (every LUSUP allocation ends inside the slot "
        "reserved by ?PresetMap / below nzlumax), pairwise-disjoint nzval/rowind/U extents, reconstruction bound, and the only admissible "
        "abnormal end is the library's diagnosed exit when an estimate was made tight. non-trivial = some supernode fills its slot exactly, "
        "or a diagnosed overflow occurred, or dynamic storage with >=2 threads allocating; distinct = case text")
ASSUMPTIONS = ["relax <= maxsuper", "ASan red zones delimit every heap block; overruns inside the single lusup array are caught by the slot monitor and the extent-disjointness check"]
BUDGET = {
    "quick": {"examples": 24000, "workers": 14, "time_budget": 80, "variants": ["asan", "long"], "variant_share": {"asan": 0.86, "long": 0.14}},
    "thorough": {"examples": 300000, "workers": 14, "time_budget": 1300, "variants": ["asan", "omp", "long"], "variant_share": {"asan": 0.65, "omp": 0.15, "long": 0.2}},
}


@st.composite
def c05_case(draw, nmax=40, nmin=1):
    case = draw(factor_case(nmin=nmin, nmax=nmax, pmax=4, with_rhs=False, stypes=("NC", "NC", "NC", "NR"),
                            valdists=("wide", "wide", "generic", "dominant"), small_explicit_share=0.1))
    s = case["set"]
    s["via"] = "gssv" if s["stype"] == "NR" else draw(st.sampled_from(["gstrf", "gstrf", "gssv"]))
    s["u"] = 1.0 if s["via"] == "gssv" else draw(st.sampled_from([1.0, 1.0, 0.5, 0.1]))
    s["dynsnode"] = draw(st.sampled_from([0, 0, 1]))
    s["panel"] = draw(st.sampled_from([1, 2, 3, 4, 8, s["n"] + 2])); s["relax"] = draw(st.sampled_from([1, 2, 3, 4, 6]))
    s["maxsuper"] = max(s["relax"], draw(st.sampled_from([1, 2, 3, 4, 8, 40])))
    mode = draw(st.sampled_from(["generous", "generous", "tightU", "tightL", "tightLU"]))
    n = s["n"]; nnz = len(case["entries"])
    small = st.sampled_from([1, 2, n, 2 * n, nnz, nnz + n, 2 * nnz, 3 * nnz, -1, -2])
    if mode in ("tightU", "tightLU"):
        s["fill7"] = draw(small); s["tight_fill"] = 1
    if mode in ("tightL", "tightLU"):
        s["fill8"] = draw(small); s["tight_fill"] = 1
    # dynamic supernode storage with >= 2 threads is the listed finding D10 (the dynamically computed bound ignores the
    # over-approximated structure of pipelined columns): keep a small share to confirm it, explore dynamic mode with P = 1
    if s["dynsnode"] and s.get("P", 1) >= 2 and draw(st.integers(0, 5)) != 0:
        s["P"] = 1; s["sched"] = "none"
    # NB the L-supernode estimate sp_ienv(6) of dynamic mode is never made tight: the property's last sentence names the U and
    # L-subscript estimates only (a too small sp_ienv(6) overruns lusup[] for relaxed supernodes; recorded in DESIGN.md, not asserted)
    case["fillmode"] = mode
    return case


@st.composite
def c05_history(draw, nmax=30, maxlen=5):
    """refactorization histories under a tight L-subscript / U estimate: the capacities remembered from the first factorization
    must keep bounding the later ones (diagnosed stop, never an out-of-bounds write)"""
    from props.hist import hist_case
    case = draw(hist_case(nmax=nmax, maxlen=maxlen))
    s = case["set"]; n = s["n"]; nnz = len(case["entries"])
    small = st.sampled_from([2 * n, nnz, nnz + n, nnz + 2 * n, 2 * nnz, 3 * nnz])
    which = draw(st.sampled_from(["L", "L", "U", "LU"]))
    if "L" in which: s["fill8"] = draw(small)
    if "U" in which: s["fill7"] = draw(small)
    s["tight_fill"] = 1; s["prop"] = "C08"; s["via"] = "history"; s.setdefault("u", 1.0); s.setdefault("P", 1)
    case["ops"] = [o.replace("trans=C", "trans=T") for o in case["ops"]]     # conjugate-transpose solves are C07's subject (listed finding D3c)
    case["fillmode"] = "history_tight" + which
    return case


def strategy(tier):
    if tier == "quick":
        return st.one_of(c05_case(), c05_case(), c05_case(), c05_history())
    return st.one_of(c05_case(nmax=60), c05_case(nmax=60), c05_case(nmin=40, nmax=200), c05_history(nmax=60, maxlen=10))


def nontrivial(case, v):
    f = v.get("f", {})
    if case["set"].get("via") == "history":
        return f.get("refacts", 0) > 0 or f.get("libexit", 0) == 1
    return f.get("tight_slots", 0) > 0 or f.get("libexit", 0) == 1 or (case["set"].get("dynsnode") and f.get("thr_panels", 0) >= 2 and f.get("dyn_setmaps", 0) >= 2)


def classify(case, v):
    if case["set"].get("via") == "history":
        from props.hist import hist_classes
        return ["via=history", "fill=" + case.get("fillmode", "?")] + hist_classes(case, v) + (["diagnosed_exit"] if v.get("v") == "libexit" else [])
    labs = std_classes(case, v); f = v.get("f", {})
    labs.append("fill=" + case.get("fillmode", "?")); labs.append("dynsnode=%d" % case["set"].get("dynsnode", 0))
    if f.get("libexit", 0): labs.append("diagnosed_exit")
    if f.get("tight_slots", 0): labs.append("slot_filled_exactly")
    return labs
