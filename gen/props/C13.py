"""C13 — refinement returns truthful backward errors and dominating forward bounds"""
from hypothesis import strategies as st
from props.common import expert_case, expert_classes

ID = "C13"
LEVEL = "exploration"
RULE = ("cases = as C12 with kappa < 1/sqrt(eps) (tight berr claim) and < 0.1/eps (ferr claim) x all trans/equed/precision combinations x "
        "threshold u (any u for truthfulness) x nprocs; oracle = berr recomputed in extended precision for the X that is returned "
        "(|berr_ret - berr_true| <= (nz+8) eps + berr_true/2), berr <= 40(n+1)eps when kappa < 1/sqrt(eps), true relative error against the "
        "exact solution of the rounded system (extended-precision inverse) <= 40*ferr when kappa < 0.1/eps; berr/ferr written. "
        "non-trivial = equed != NOEQUIL or trans != N or kappa >= 1e3; distinct = case text")
ASSUMPTIONS = ["nothing is asserted about monotonicity of refinement (LAPACK keeps the last iterate)", "40 = THRESH of the repository's own drivers"]
BUDGET = {
    "quick": {"examples": 14000, "workers": 14, "time_budget": 90, "variants": ["asan"]},
    "thorough": {"examples": 200000, "workers": 14, "time_budget": 1300, "variants": ["asan", "vendor"], "variant_share": {"asan": 0.75, "vendor": 0.25}},
}


def strategy(tier):
    return expert_case(nmax=30 if tier == "quick" else 70, kinds=("svd", "svd", "recipe", "scaled", "arrow"))


def nontrivial(case, v):
    f = v.get("f", {}); s = case["set"]
    return f.get("info", -1) in (0, s["n"] + 1) and (f.get("equed", 0) != 0 or s["trans"] != "N" or (f.get("kappa", 0) or 0) >= 1e3)


classify = expert_classes
