"""C12 — condition estimate and pivot growth are sound"""
from hypothesis import strategies as st
from props.common import expert_case, expert_classes

ID = "C12"
LEVEL = "exploration"
RULE = ("cases = nonsingular matrices with prescribed condition (dense, singular values graded 1..10^-k, k<=11 double / <=4 single; "
        "near-singular k up to 17/8 for the info=n+1 clause), arrowheads with a dense first/last row or column (kappa_1 != kappa_inf), "
        "rescaled sparse recipes x threshold u in [0.1,1] x every trans x NC/NR x fact x s/d/c/z x nprocs 1..4 (forests, so that "
        "supernode numbering is not monotone); oracle = extended-precision inverse: (1-d)/(||A||*||inv A||) <= rcond <= (1+d)/(||A||*||inv(A) e/n||) "
        "with the norm the property prescribes (1-norm of the user's matrix for A X = B, inf-norm for the transposed solve, whatever the "
        "storage), d = 0.05 + 10 n eps kappa growth; info = n+1 iff rcond < eps (factor 4 band); X/ferr/berr still written; reciprocal "
        "pivot growth recomputed from the returned factors within 8 eps. non-trivial = kappa >= 1e3, or the two norms' condition numbers "
        "differ by >= 10x, or nprocs >= 2 with non-monotone supernode numbering; distinct = case text")
ASSUMPTIONS = ["rcond bounds asserted only when d < 0.5 and kappa < 1e-2/eps", "magnitudes in the growth factor follow the library (|re|+|im| for complex)"]
BUDGET = {
    "quick": {"examples": 14000, "workers": 14, "time_budget": 90, "variants": ["asan"]},
    "thorough": {"examples": 200000, "workers": 14, "time_budget": 1300, "variants": ["asan", "vendor"], "variant_share": {"asan": 0.75, "vendor": 0.25}},
}


def strategy(tier):
    nm = 30 if tier == "quick" else 70
    return st.one_of(expert_case(nmax=nm, kinds=("svd", "svd", "arrow", "recipe", "scaled"), facts=("DOFACT", "DOFACT", "EQUILIBRATE", "FACTORED")),
                     expert_case(nmax=nm, kinds=("svd",), cond_max=17, precs=["d", "z"], facts=("DOFACT",)),
                     expert_case(nmax=nm, kinds=("svd",), cond_max=8, precs=["s", "c"], facts=("DOFACT",)))


def nontrivial(case, v):
    f = v.get("f", {}); s = case["set"]
    nr = f.get("norm_ratio", 1.0) or 1.0
    return f.get("rcond_checked", 0) == 1 and ((f.get("kappa", 0) or 0) >= 1e3 or nr >= 10 or nr <= 0.1 or (s.get("P", 1) >= 2 and f.get("sup_monotone", 1) == 0)) \
        or f.get("info", 0) == s["n"] + 1


classify = expert_classes
