"""C14 — workspace modes and allocation failure are handled without corruption (fault enumeration)"""
from hypothesis import strategies as st
from props.common import factor_case
import core

ID = "C14"
LEVEL = "fault_enumeration"
TIMEOUT_IS_FAILURE = True
RULE = ("for each generated small system (n <= 14, four precisions, simple driver / expert driver / p?gstrf_init+p?gstrf, nprocs 1..4 under the "
        "controlled scheduler): (a) a fault-free run counts the K allocation requests of the call; (b) for EVERY k = 1..K a run in which request "
        "k and all later ones fail, plus runs where only request k fails; (c) a workspace query (lwork=-1); (d) a caller workspace of every size "
        "class from 0 to twice the queried size, obtained by exact-size malloc so that ASan red zones delimit it. oracle = outcome in {return "
        "with info > n, library exit with a diagnostic on stderr, genuine success verified by the C01/C02/C07 oracles}; never a sanitizer "
        "report, signal, deadlock (controller: every live thread spin-waiting), return with info in 0..n after a failed request that is not a "
        "verified success; query: no panel factored, size > 0; sufficient workspace: all 13 L/U arrays inside the caller's buffer. "
        "non-trivial = the failing request is neither the first nor the last of the call, or a user workspace run; distinct = (system, mode, k)")
ASSUMPTIONS = ["allocation requests are counted at the malloc/calloc/realloc boundary of library objects (ld --wrap)",
               "a hang is decided by the controlled scheduler's dead-state detection; free-running timeouts count as failures only when reproduced"]
BUDGET = {
    "quick": {"examples": 36, "workers": 14, "time_budget": 90, "variants": ["asan"], "split": False},
    "thorough": {"examples": 700, "workers": 14, "time_budget": 1300, "variants": ["asan"], "split": False},
}


@st.composite
def c14_case(draw):
    case = draw(factor_case(nmin=2, nmax=14, pmax=4, with_rhs=True, valdists=("dominant",), small_explicit_share=0.0, modes=("controlled",)))
    s = case["set"]
    s["api"] = draw(st.sampled_from(["gssv", "gssvx", "gssvx", "gstrf"]))
    if s["api"] == "gstrf": s["stype"] = "NC"
    if s["stype"] == "NR" and s["api"] == "gstrf": s["api"] = "gssv"
    s["fact"] = draw(st.sampled_from(["DOFACT", "EQUILIBRATE"])); s["trans"] = draw(st.sampled_from(["N", "T"]))
    if s.get("nrhs", 1) == 0: s["nrhs"] = 1
    s["ldb"] = s["n"]; s["ldx"] = s["n"]
    s["timeout_ms"] = 12000
    case["api"] = s["api"]
    return case


def strategy(tier):
    return c14_case()


def _run(case, runner, extra):
    c = dict(case); c["set"] = dict(case["set"]); c["set"]["prop"] = ID; c["set"].update(extra)
    c["sub"] = extra
    t = core.render(c); v = runner.run(t)
    return (t, v)


_KNOWN = None


def _stop(v):
    """stop enumerating this system only at a failure that is not a listed finding (the search continues behind known ones)"""
    global _KNOWN
    if _KNOWN is None: _KNOWN = core.load_known()
    if v.get("v") == "timeout": return True        # a hang: stop enumerating this system (each further hang costs a full time-out)
    return core.is_failure(v) and core.match_known(_KNOWN, ID, v.get("sig", ""), v.get("detail", "")) is None


def evaluate(case, runner):
    out = []
    t, v = _run(case, runner, {})
    out.append((t, v))
    if v.get("v") != "pass":
        return out
    K = int(v.get("f", {}).get("allocs", 0))
    # (b) every k: request k and all later fail; every 3rd k additionally: only request k fails
    for k in range(1, K + 1):
        out.append(_run(case, runner, {"malloc_fail_from": k}))
        if _stop(out[-1][1]): return out
        if k % 3 == 0:
            out.append(_run(case, runner, {"malloc_fail_only": k}))
            if _stop(out[-1][1]): return out
    # (c) query and (d) user workspace sizes
    if case["api"] in ("gssvx", "gstrf"):
        tq, vq = _run(case, runner, {"lwork": -1}); out.append((tq, vq))
        if vq.get("v") == "pass":
            need = int(vq.get("f", {}).get("query_bytes", 0))
            sizes = sorted(set([1, 8, 64, 256] + [max(1, int(need * f)) for f in (0.02, 0.05, 0.1, 0.2, 0.3, 0.4, 0.5, 0.6, 0.7, 0.8, 0.9, 1.0, 1.1, 1.5, 2.0, 4.0)]))
            for sz in sizes:
                out.append(_run(case, runner, {"lwork": sz, "need": need}))
                if _stop(out[-1][1]): return out
    return out


def nontrivial(case, v):
    f = v.get("f", {}); K = f.get("allocs", 0)
    return f.get("failed", 0) > 0 or f.get("lwork", 0) > 0 or f.get("oom_return", 0) > 0 or v.get("v") == "libexit"


def classify(case, v):
    f = v.get("f", {}); s = case["set"]
    labs = ["api=" + case["api"], "prec=" + s["prec"], "P=%d" % s.get("P", 1), "verdict=" + v.get("v", "?")]
    if f.get("oom_return", 0): labs.append("outcome=info>n")
    if v.get("v") == "libexit": labs.append("outcome=diagnosed_exit")
    if f.get("user_ws_success", 0): labs.append("outcome=user_workspace_success")
    if f.get("success_after_failed_request", 0): labs.append("outcome=success_after_retry")
    if f.get("lwork", 0) == -1: labs.append("mode=query")
    elif f.get("lwork", 0) > 0: labs.append("mode=user_workspace")
    elif f.get("failed", 0) > 0: labs.append("mode=alloc_fault")
    if v.get("v") in ("fail", "crash", "timeout"): labs.append("sig=" + v.get("sig", ""))
    return labs
