"""C06 — singular matrices are reported through info, never by crash or corruption"""
import numpy as np
from hypothesis import strategies as st
from props.common import factor_case, std_classes

ID = "C06"
LEVEL = "exploration"
RULE = ("cases = exactly singular matrices with a provable floating-point outcome: S1 one or more stored columns (rows for row-wise storage) "
        "made identically zero inside an otherwise strictly dominant matrix, S5 an independent block with two exactly equal columns "
        "whose elimination is exact (entries +-1, +-1/2), plus (class kept apart as a listed finding) S2/S3/S4 structurally rank-deficient "
        "patterns that leave a column without any candidate row; x s/d/c/z x simple driver / p?gstrf x NC/NR x orderings x tunables "
        "(zero column inside relaxed or multi-column supernodes) x nprocs 1..6 x controlled schedules, plus call histories in which a refactorization (refact=YES, usepr YES/NO) meets an identically zero column; oracle = normal return, 0<info<=n, "
        "info-1 = first exactly-zero diagonal entry of the returned U, info = position (in the returned A*Pc order) of the first singular "
        "column, B bit-identical, perms bijective, L/U well-formed (C09 predicate) and destroyable under ASan. "
        "non-trivial = the singular column is not the last one and nprocs>=2 with >=2 threads taking panels, or it lies in a supernode "
        "of >=2 columns; distinct = case text")
ASSUMPTIONS = ["for generic-valued rank deficiency reached only through fill (S6) no exact floating-point outcome exists; not generated",
               "structurally empty candidate sets (no candidate row) are the listed finding D2 and are matched by the monitor's "
               "SLUV_SINGULAR event (nsupr == nsupc), not by input"]
BUDGET = {
    "quick": {"examples": 21000, "workers": 14, "time_budget": 80, "variants": ["asan"]},
    "thorough": {"examples": 250000, "workers": 14, "time_budget": 1300, "variants": ["asan", "vendor", "omp", "long"], "variant_share": {"asan": 0.6, "vendor": 0.2, "omp": 0.1, "long": 0.1}},
}


@st.composite
def c06_case(draw, nmax=40):
    case = draw(factor_case(nmin=2, nmax=nmax, pmax=6, with_rhs=True, valdists=("dominant",), small_explicit_share=0.0,
                            modes=("controlled", "controlled", "free")))
    s = case["set"]; n = s["n"]; nr = s["stype"] == "NR"
    s["via"] = "gssv" if nr else draw(st.sampled_from(["gssv", "gssv", "gstrf"]))
    s["u"] = 1.0
    if s.get("nrhs", 1) == 0: s["nrhs"] = 1
    s["ldb"] = n
    kind = draw(st.sampled_from(["S1", "S1", "S1", "S5", "S2", "S3", "S4"]))
    ent = case["entries"]
    key = 0 if nr else 1           # index of the factored matrix' column inside an entry tuple
    oth = 1 if nr else 0
    sing = []
    if kind == "S1":
        ks = draw(st.lists(st.integers(0, n - 1), min_size=1, max_size=2, unique=True))
        ent = [tuple(0.0 if (e[key] in ks and t >= 2) else e[t] for t in range(4)) for e in ent]
        sing = ks
    elif kind == "S5":
        # append an independent 3x3 block with two identical columns: [1 1 .; .5 .5 .; . . 4]  (optionally permuted rows)
        a, b, c = n, n + 1, n + 2
        blk = [(a, a, 1.0), (b, a, 0.5), (a, b, 1.0), (b, b, 0.5), (c, c, 4.0)]
        if draw(st.booleans()):
            blk = [(b, a, 1.0), (a, a, -0.5), (b, b, 1.0), (a, b, -0.5), (c, c, 4.0), (c, a, 0.25), (c, b, 0.25)]
        for (i, j, v) in blk:
            ent.append((j, i, v, 0.0) if nr else (i, j, v, 0.0))
        n += 3; s["n"] = n; s["m"] = n; s["ldb"] = n
        case["dup"] = [a, b]
        if "pc" in case: case["pc"] = list(case["pc"]) + [n - 3, n - 2, n - 1]
        nb = s["nrhs"]; case["b"] = case["b"] + [(1.0, 0.0)] * (3 * nb)
        # rhs layout is column major with leading dimension n: rebuild
        rs = np.random.default_rng(draw(st.integers(0, 2 ** 31)))
        case["b"] = [(float(rs.uniform(-1, 1)), 0.0) for _ in range(n * nb)]
    elif kind == "S2":      # structurally empty column of the factored matrix
        k = draw(st.integers(0, n - 1)); ent = [e for e in ent if e[key] != k]
    elif kind == "S3":      # structurally empty row
        k = draw(st.integers(0, n - 1)); ent = [e for e in ent if e[oth] != k]
    elif kind == "S4":      # first columns supported on too few rows: make two columns singletons on the same row
        if n >= 2:
            k1, k2 = draw(st.lists(st.integers(0, n - 1), min_size=2, max_size=2, unique=True))
            r = draw(st.integers(0, n - 1))
            # no other column may touch row r, otherwise fill makes the deficiency a rounding-level nonzero (not provable)
            ent = [e for e in ent if e[key] not in (k1, k2) and e[oth] != r]
            for k in (k1, k2):
                ent.append((k, r, 2.0, 0.0) if nr else (r, k, 2.0, 0.0))
    case["entries"] = ent
    case["kind"] = kind
    lists = {}
    if sing: lists["singcols"] = sing
    if kind == "S5": lists["duppair"] = case["dup"]
    case["lists"] = lists
    if not ent:
        ent.append((0, 0, 0.0, 0.0)); case["entries"] = ent
    return case


@st.composite
def c06_history(draw, nmax=30, maxlen=6):
    """singular steps inside call histories: a refactorization (with and without reuse of the old row order) of values with an
    identically zero column after a successful factorization, followed by further calls and the destroy routines"""
    from props.hist import hist_case
    case = draw(hist_case(nmax=nmax, maxlen=maxlen, allow_singular=True))
    ops = [o.replace("trans=C", "trans=T") for o in case["ops"]]      # conjugate-transpose solves are C07's subject (listed finding D3c)
    if not any("vals=zerocol" in o for o in ops):
        have = False
        for o in ops:
            if o.startswith("FIRST"): have = True
            elif o.startswith("DESTROY"): have = False
        if not have: ops.append("FIRST P=1 u=1.0")
        ops.append("REFACT P=%d u=1.0 usepr=%d vals=zerocol vseed=%d" % (draw(st.sampled_from([1, 2])), draw(st.sampled_from([0, 1])), draw(st.integers(1, 10 ** 6))))
        if draw(st.booleans()): ops.append("REFACT P=1 u=1.0 usepr=%d vals=redraw vseed=%d" % (draw(st.sampled_from([0, 1])), draw(st.integers(1, 10 ** 6))))
    case["ops"] = ops
    s = case["set"]; s["prop"] = "C08"; s["via"] = "history"; s.setdefault("u", 1.0); s.setdefault("P", 1)
    case["kind"] = "history"
    return case


def strategy(tier):
    if tier == "quick":
        return st.one_of(c06_case(40), c06_case(40), c06_case(40), c06_history())
    return st.one_of(c06_case(120), c06_case(120), c06_case(120), c06_history(60, 12))


def nontrivial(case, v):
    f = v.get("f", {}); s = case["set"]
    if case["kind"] == "history": return f.get("singular_steps", 0) > 0
    if case["kind"] not in ("S1", "S5"): return False
    info = f.get("info", 0); n = s["n"]
    return (0 < info < n and s.get("P", 1) >= 2 and f.get("thr_panels", 0) >= 2) or (0 < info and f.get("in_supernode", 0) >= 2)


def classify(case, v):
    if case["kind"] == "history":
        from props.hist import hist_classes
        return ["kind=history"] + hist_classes(case, v)
    labs = std_classes(case, v); f = v.get("f", {})
    labs.append("kind=" + case["kind"]); labs.append("via=" + case["set"]["via"])
    if f.get("no_candidate", 0): labs.append("no_candidate_row_event")
    if 0 < f.get("info", 0) < case["set"]["n"]: labs.append("singular_column_not_last")
    return labs
