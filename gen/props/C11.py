"""C11 — equilibration: scale factors, application rule and reported flag agree"""
import numpy as np
from hypothesis import strategies as st
from props.common import expert_case, expert_classes, std_classes, PRECS

ID = "C11"
LEVEL = "exploration"
RULE = ("cases = (a) direct calls of ?gsequ then ?laqgs on m x n matrices (rectangular too, 1x1, entries 2^k over the whole exponent range "
        "k in ±1000 double / ±120 single, rows/columns scaled by powers and non-powers of two, exactly zero rows/columns stored or empty, rows/columns whose largest entry is subnormal) "
        "in four precisions; (b) the expert driver with fact=EQUILIBRATE on badly row-/column-/both-scaled matrices x NC/NR x trans; "
        "oracle = independent long-double re-implementation of the documented rule: R_i = 1/clip(max_j|a_ij|), C_j = 1/clip(max_i R_i|a_ij|) "
        "within 3/8 ulp, finite and positive, row maxima of R*A and column maxima of R*A*C equal 1 within rounding unless clipped, rowcnd/"
        "colcnd/amax equal the true ratios, first zero row/column reported by index, apply step follows the 0.1/small/large thresholds "
        "(1e-6 band not asserted), A_out = scaled A_in within 3 ulp, equed says exactly what was done; driver: A_out/B_out per flag and "
        "effective transpose, NOEQUIL => bit-identical. non-trivial = equed != NOEQUIL, or clipping, or a zero row/column; distinct = case text")
ASSUMPTIONS = ["complex magnitude is |re|+|im| as in the library/LAPACK"]
BUDGET = {
    "quick": {"examples": 20000, "workers": 14, "time_budget": 90, "variants": ["asan"]},
    "thorough": {"examples": 250000, "workers": 14, "time_budget": 1200, "variants": ["asan"]},
}


@st.composite
def direct_case(draw, nmax=24):
    prec = draw(st.sampled_from(PRECS)); single = prec in "sc"; cplx = prec in "cz"
    m = draw(st.integers(1, nmax)); n = draw(st.integers(1, nmax)) if draw(st.booleans()) else m
    seed = draw(st.integers(0, 2 ** 32 - 1)); rng = np.random.default_rng(seed)
    dens = draw(st.sampled_from([0.15, 0.4, 0.9]))
    emax = draw(st.sampled_from([2, 10, 40, 120] if single else [2, 10, 60, 300, 1000]))
    mode = draw(st.sampled_from(["plain", "rowscaled", "colscaled", "both", "zerorow", "zerocol", "emptyrow", "emptycol", "tinyrow", "tinycol"]))
    rexp = rng.integers(-emax // 2, emax // 2 + 1, m) if mode in ("rowscaled", "both") else np.zeros(m, int)
    cexp = rng.integers(-emax // 2, emax // 2 + 1, n) if mode in ("colscaled", "both") else np.zeros(n, int)
    base = draw(st.sampled_from([1, 1, emax // 3]))
    ent = []
    lim = 126 if single else 1021
    # global magnitude shift: all entries near the overflow or underflow threshold (amax > LARGE / amax < SMALL row-scaling rule)
    shift = draw(st.sampled_from([0, 0, 0, lim - 4, lim - 20, lim - 45, -(lim - 4), -(lim - 20), -(lim - 45)]))
    for j in range(n):
        for i in range(m):
            if rng.random() < dens or i == j % m:
                e = int(rexp[i] + cexp[j] + rng.integers(-base, base + 1)) + shift; e = max(-lim, min(lim, e))
                mant = float(rng.uniform(1, 2)) if draw(st.booleans()) else 1.0
                v = mant * 2.0 ** e * (1 if rng.random() < 0.5 else -1)
                w = float(rng.uniform(-1, 1)) * 2.0 ** e if cplx else 0.0
                if single: v, w = float(np.float32(v)), float(np.float32(w))
                ent.append((i, j, v, w))
    k = int(rng.integers(m)) if mode.endswith("row") else int(rng.integers(n))
    if mode == "zerorow": ent = [(i, j, 0.0 if i == k else a, 0.0 if i == k else b) for (i, j, a, b) in ent]
    if mode == "zerocol": ent = [(i, j, 0.0 if j == k else a, 0.0 if j == k else b) for (i, j, a, b) in ent]
    # a row / column whose largest entry is subnormal but not zero (below the clipping threshold, not a "zero row")
    tiny = 2.0 ** (-(lim + (15 if single else 30)))
    if mode == "tinyrow": ent = [(i, j, (tiny if a >= 0 else -tiny) if i == k else a, 0.0 if i == k else b) for (i, j, a, b) in ent]
    if mode == "tinycol": ent = [(i, j, (tiny if a >= 0 else -tiny) if j == k else a, 0.0 if j == k else b) for (i, j, a, b) in ent]
    if mode == "emptyrow": ent = [e for e in ent if e[0] != k]
    if mode == "emptycol": ent = [e for e in ent if e[1] != k]
    if not ent: ent = [(0, 0, 1.0, 0.0)]
    s = {"prec": prec, "m": m, "n": n, "stype": "NC", "mode": "direct"}
    return {"set": s, "entries": ent, "family": "eq:" + mode, "kind": "direct", "scal": mode}


def strategy(tier):
    nm = 24 if tier == "quick" else 60
    return st.one_of(direct_case(nm), direct_case(nm),
                     expert_case(nmax=nm, kinds=("scaled", "scaled", "recipe"), facts=("EQUILIBRATE", "EQUILIBRATE", "FACTORED", "DOFACT")).map(lambda c: (c["set"].__setitem__("mode", "driver"), c)[1]))


def nontrivial(case, v):
    f = v.get("f", {})
    return (f.get("equed", 0) or 0) != 0 or f.get("clipped", 0) == 1 or f.get("zero_rowcol", 0) == 1


def classify(case, v):
    f = v.get("f", {}); s = case["set"]
    labs = ["prec=" + s["prec"], "mode=" + s.get("mode", "?"), "scal=" + case.get("scal", "?"), "equed=%d" % int(f.get("equed", -1) if f.get("equed") is not None else -1), "verdict=" + v.get("v", "?")]
    if f.get("clipped", 0): labs.append("clipped")
    if f.get("zero_rowcol", 0): labs.append("zero_row_or_col")
    if f.get("near_threshold", 0): labs.append("near_threshold_not_asserted")
    if s.get("mode") == "driver": labs += ["fact=" + s["fact"], "trans=" + s["trans"], "stype=" + s["stype"]]
    if v.get("v") == "fail": labs.append("sig=" + v.get("sig", ""))
    return labs
