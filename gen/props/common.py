"""common.py — building blocks shared by the property modules"""
import numpy as np
from hypothesis import strategies as st
import matrices as mx

PRECS = ["d", "d", "s", "z", "c"]


@st.composite
def factor_case(draw, nmin=1, nmax=40, families=None, valdists=("generic", "dominant", "wide"), precs=PRECS, pmin=1, pmax=4,
                modes=("controlled", "controlled", "controlled", "free"), stypes=("NC", "NC", "NR"), orders=("0", "1", "2", "3", "user"),
                with_rhs=True, small_explicit_share=0.15, allow_zero_diag=True):
    prec = draw(st.sampled_from(list(precs)))
    use_small = draw(st.floats(0, 1, width=16)) < small_explicit_share
    if use_small:
        n, entries = draw(mx.explicit_small(nmax=min(8, nmax), cplx=prec in "cz"))
        if prec in "sc":
            entries = [(i, j, float(np.float32(a)), float(np.float32(b))) for (i, j, a, b) in entries]
        rec = {"family": "explicit", "n": n}
    else:
        rec = draw(mx.recipe(nmin, nmax, families, valdists, allow_zero_diag))
        n = rec["n"]
        entries = mx.entries_of(rec, prec)
    stype = draw(st.sampled_from(list(stypes)))
    if draw(st.booleans()):
        entries = mx.shuffle_within_columns(entries, draw(st.integers(0, 2 ** 16)), by_row=(stype == "NR"))
    tun = mx.fix_tunables(draw(mx.tunables))
    sch = draw(mx.schedule(pmin, pmax, modes))
    order = draw(st.sampled_from(list(orders)))
    s = {"prec": prec, "n": n, "m": n, "stype": stype, "order": order}
    s.update(tun); s.update(sch)
    case = {"set": s, "entries": entries, "family": rec["family"]}
    if order == "user":
        case["pc"] = list(draw(st.permutations(list(range(n)))))
    if with_rhs:
        nrhs = draw(st.sampled_from([1, 1, 2, 3, 0]))
        s["nrhs"] = nrhs
        s["ldb"] = n + draw(st.sampled_from([0, 0, 1, 3]))
        rs = np.random.default_rng(draw(st.integers(0, 2 ** 32 - 1)))
        b = []
        for _ in range(n * nrhs):
            re_ = float(rs.uniform(-2, 2)); im_ = float(rs.uniform(-2, 2)) if prec in "cz" else 0.0
            if prec in "sc":
                re_ = float(np.float32(re_)); im_ = float(np.float32(im_))
            b.append((re_, im_))
        case["b"] = b
    return case


def par_nontrivial(case, v):
    f = v.get("f", {})
    return case["set"].get("P", 1) >= 2 and f.get("thr_panels", 0) >= 2 and f.get("nsuper", 0) >= 3 and f.get("offdiag_U", 0) >= 1


def std_classes(case, v):
    f = v.get("f", {}); s = case["set"]
    labs = ["prec=" + s["prec"], "P=%d" % s.get("P", 1), "sched=" + str(s.get("sched", "none")), "family=" + case.get("family", "?"),
            "order=" + str(s.get("order")), "stype=" + str(s.get("stype")), "verdict=" + v.get("v", "?")]
    n = s["n"]
    labs.append("n<=4" if n <= 4 else "n<=12" if n <= 12 else "n<=40" if n <= 40 else "n<=120" if n <= 120 else "n>120")
    if f.get("thr_panels", 0) >= 2: labs.append("threads_with_panels>=2")
    if f.get("blocked_waits", 0) > 0: labs.append("pipelined_wait_blocked")
    if f.get("sup_monotone", 1) == 0: labs.append("supernode_numbering_not_monotone")
    if f.get("maxsup", 0) >= 3: labs.append("supernode>=3cols")
    if f.get("offdiag_pivots", 0) > 0: labs.append("offdiag_pivot")
    if f.get("zero_diag", 0) > 0: labs.append("zero_diagonal_entries")
    if v.get("v") == "fail": labs.append("sig=" + v.get("sig", ""))
    return labs
