"""common.py — building blocks shared by the property modules"""
import numpy as np
from hypothesis import strategies as st
import matrices as mx

PRECS = ["d", "d", "s", "z", "c"]


@st.composite
def factor_case(draw, nmin=1, nmax=40, families=None, valdists=("generic", "dominant", "wide"), precs=PRECS, pmin=1, pmax=4,
                modes=("controlled", "controlled", "controlled", "free"), stypes=("NC", "NC", "NR"), orders=("0", "1", "2", "3", "user"),
                with_rhs=True, small_explicit_share=0.15, allow_zero_diag=True):
    prec = draw(st.sampled_from(list(precs)))
    use_small = draw(st.floats(0, 1, width=16)) < small_explicit_share
    if use_small:
        n, entries = draw(mx.explicit_small(nmax=min(8, nmax), cplx=prec in "cz"))
        if prec in "sc":
            entries = [(i, j, float(np.float32(a)), float(np.float32(b))) for (i, j, a, b) in entries]
        rec = {"family": "explicit", "n": n}
    else:
        rec = draw(mx.recipe(nmin, nmax, families, valdists, allow_zero_diag))
        n = rec["n"]
        entries = mx.entries_of(rec, prec)
    stype = draw(st.sampled_from(list(stypes)))
    if draw(st.booleans()):
        entries = mx.shuffle_within_columns(entries, draw(st.integers(0, 2 ** 16)), by_row=(stype == "NR"))
    tun = mx.fix_tunables(draw(mx.tunables))
    sch = draw(mx.schedule(pmin, pmax, modes))
    order = draw(st.sampled_from(list(orders)))
    s = {"prec": prec, "n": n, "m": n, "stype": stype, "order": order}
    s.update(tun); s.update(sch)
    case = {"set": s, "entries": entries, "family": rec["family"]}
    if order == "user":
        case["pc"] = list(draw(st.permutations(list(range(n)))))
    if with_rhs:
        nrhs = draw(st.sampled_from([1, 1, 2, 3, 0]))
        s["nrhs"] = nrhs
        s["ldb"] = n + draw(st.sampled_from([0, 0, 1, 3]))
        rs = np.random.default_rng(draw(st.integers(0, 2 ** 32 - 1)))
        b = []
        for _ in range(n * nrhs):
            re_ = float(rs.uniform(-2, 2)); im_ = float(rs.uniform(-2, 2)) if prec in "cz" else 0.0
            if prec in "sc":
                re_ = float(np.float32(re_)); im_ = float(np.float32(im_))
            b.append((re_, im_))
        case["b"] = b
    return case


def par_nontrivial(case, v):
    f = v.get("f", {})
    return case["set"].get("P", 1) >= 2 and f.get("thr_panels", 0) >= 2 and f.get("nsuper", 0) >= 3 and f.get("offdiag_U", 0) >= 1


def std_classes(case, v):
    f = v.get("f", {}); s = case["set"]
    labs = ["prec=" + s["prec"], "P=%d" % s.get("P", 1), "sched=" + str(s.get("sched", "none")), "family=" + case.get("family", "?"),
            "order=" + str(s.get("order")), "stype=" + str(s.get("stype")), "verdict=" + v.get("v", "?")]
    n = s["n"]
    labs.append("n<=4" if n <= 4 else "n<=12" if n <= 12 else "n<=40" if n <= 40 else "n<=120" if n <= 120 else "n>120")
    if f.get("thr_panels", 0) >= 2: labs.append("threads_with_panels>=2")
    if f.get("blocked_waits", 0) > 0: labs.append("pipelined_wait_blocked")
    if f.get("sup_monotone", 1) == 0: labs.append("supernode_numbering_not_monotone")
    if f.get("maxsup", 0) >= 3: labs.append("supernode>=3cols")
    if f.get("offdiag_pivots", 0) > 0: labs.append("offdiag_pivot")
    if f.get("zero_diag", 0) > 0: labs.append("zero_diagonal_entries")
    if v.get("v") == "fail": labs.append("sig=" + v.get("sig", ""))
    return labs


# ---------------------------------------------------------------------------------------------- expert driver cases
def svd_matrix(n, cond_exp, seed, cplx, single):
    """dense matrix with singular values graded from 1 to 10^-cond_exp"""
    rng = np.random.default_rng(seed)
    def orth():
        a = rng.standard_normal((n, n)) + (1j * rng.standard_normal((n, n)) if cplx else 0)
        q, _ = np.linalg.qr(a); return q
    U, V = orth(), orth()
    s = np.logspace(0, -cond_exp, n) if n > 1 else np.array([1.0])
    A = (U * s) @ V.conj().T
    ent = []
    for j in range(n):
        for i in range(n):
            v = A[i, j]
            re_, im_ = float(np.real(v)), float(np.imag(v)) if cplx else 0.0
            if single: re_, im_ = float(np.float32(re_)), float(np.float32(im_))
            if re_ != 0.0 or im_ != 0.0: ent.append((i, j, re_, im_))
    return ent


@st.composite
def expert_case(draw, nmax=30, kinds=("recipe", "recipe", "svd", "scaled", "arrow"), pmax=4, cond_max=None, facts=("DOFACT", "EQUILIBRATE", "FACTORED"),
                transes=("N", "T", "C"), stypes=("NC", "NR"), precs=PRECS, valdists=("dominant", "generic")):
    prec = draw(st.sampled_from(list(precs)))
    cplx, single = prec in "cz", prec in "sc"
    kind = draw(st.sampled_from(list(kinds)))
    fseed = draw(st.integers(0, 2 ** 32 - 1))
    if kind == "svd":
        n = draw(st.integers(1, min(14, nmax)))
        kmax = (4 if single else 11) if cond_max is None else cond_max
        k = draw(st.integers(0, kmax))
        entries = svd_matrix(n, k, fseed, cplx, single)
        rec = {"family": "svd", "cond_exp": k}
    else:
        fam = ["arrow"] if kind == "arrow" else None
        rec = draw(mx.recipe(12 if kind == "arrow" else 1, max(12, nmax) if kind == "arrow" else nmax, fam, valdists, allow_zero_diag=True))
        n = rec["n"]
        entries = mx.entries_of(rec, prec)
    scal = "none"
    if kind == "scaled" or draw(st.integers(0, 3)) == 0:
        scal = draw(st.sampled_from(["row", "col", "both"]))
        rs = np.random.default_rng(fseed ^ 0x5bd1e995)
        span = 5 if single else 12
        rexp = rs.integers(-span, span + 1, n) if scal in ("row", "both") else np.zeros(n, int)
        cexp = rs.integers(-span, span + 1, n) if scal in ("col", "both") else np.zeros(n, int)
        if draw(st.booleans()):   # non powers of two as well
            rmul = rs.uniform(1, 2, n); cmul = rs.uniform(1, 2, n)
        else:
            rmul = np.ones(n); cmul = np.ones(n)
        e2 = []
        for (i, j, a, b) in entries:
            f = float(2.0 ** int(rexp[i]) * 2.0 ** int(cexp[j]) * (rmul[i] if scal in ("row", "both") else 1) * (cmul[j] if scal in ("col", "both") else 1))
            a, b = a * f, b * f
            if single: a, b = float(np.float32(a)), float(np.float32(b))
            e2.append((i, j, a, b))
        entries = e2
    stype = draw(st.sampled_from(list(stypes)))
    tun = mx.fix_tunables(draw(mx.tunables))
    sch = draw(mx.schedule(1, pmax, ("controlled", "controlled", "free")))
    s = {"prec": prec, "n": n, "m": n, "stype": stype, "order": draw(st.sampled_from(["0", "1", "2", "3"]))}
    s.update(tun); s.update(sch)
    s["fact"] = draw(st.sampled_from(list(facts))); s["trans"] = draw(st.sampled_from(list(transes)))
    if s["trans"] == "C" and cplx and draw(st.integers(0, 7)) != 0:
        s["trans"] = "T"       # complex CONJ is the listed finding D3c: keep a small share to confirm it, explore behind it
    if s["fact"] == "FACTORED":
        s["fact1"] = draw(st.sampled_from(["DOFACT", "EQUILIBRATE"])); s["trans1"] = draw(st.sampled_from(["N", "T"]))
    s["u"] = draw(st.sampled_from([1.0, 1.0, 0.5, 0.1, 0.01]))
    nrhs = draw(st.sampled_from([1, 1, 2, 3, 0, 6, 9])); s["nrhs"] = nrhs
    # reducible system with a right-hand side that vanishes on the leading block: the solution has exact zeros followed by
    # nonzeros (exercises data-dependent skips in the sparse kernels used by the refinement)
    blockzero = kind != "svd" and n >= 4 and draw(st.integers(0, 4)) == 0
    kcut = draw(st.integers(1, n - 1)) if blockzero else 0
    if blockzero:
        entries = [(i, j, a, b) for (i, j, a, b) in entries if (i < kcut) == (j < kcut)]
        have = set((i, j) for (i, j, a, b) in entries)
        entries += [(i, i, 2.0 + 0.25 * (i % 3), 0.0) for i in range(n) if (i, i) not in have]
    s["ldb"] = n + draw(st.sampled_from([0, 0, 2])); s["ldx"] = n + draw(st.sampled_from([0, 0, 1]))
    rs = np.random.default_rng(fseed ^ 0x9e3779b9)
    b = []
    for t in range(n * nrhs):
        re_ = float(rs.uniform(-2, 2)); im_ = float(rs.uniform(-2, 2)) if cplx else 0.0
        if single: re_, im_ = float(np.float32(re_)), float(np.float32(im_))
        if blockzero and (t % n) < kcut: re_, im_ = 0.0, 0.0
        b.append((re_, im_))
    return {"set": s, "entries": entries, "b": b, "family": rec["family"], "kind": kind, "scal": scal, "blockzero": blockzero}


def expert_classes(case, v):
    labs = std_classes(case, v); s = case["set"]; f = v.get("f", {})
    if case.get("blockzero"): labs.append("solution_with_exact_zeros")
    if s.get("nrhs", 1) >= 6: labs.append("nrhs>=6")
    labs += ["fact=" + s["fact"], "trans=" + s["trans"], "kind=" + case.get("kind", "?"), "scal=" + case.get("scal", "none"),
             "equed=%d" % int(f.get("equed", -1)), "cell=%s/%s/%s/%s" % (s["trans"], s["stype"], s["fact"], s["prec"])]
    if f.get("wellcond", 0): labs.append("wellcond")
    if f.get("rcond_checked", 0): labs.append("rcond_checked")
    k = f.get("kappa", 0) or 0
    labs.append("kappa<1e3" if k < 1e3 else "kappa<1e8" if k < 1e8 else "kappa>=1e8")
    if f.get("info", 0) == s["n"] + 1: labs.append("info=n+1")
    return labs


# ---------------------------------------------------------------------------------------------- exhaustive scheduler model (C03/C04)
def _model_job(args):
    import subprocess, json, os
    (n, w, relax, P, variant) = args
    exe = os.path.join(os.path.dirname(os.path.dirname(os.path.dirname(os.path.abspath(__file__)))), ".build", variant, "schedmodel")
    try:
        r = subprocess.run([exe, str(n), str(w), str(relax), str(P), "12000017"], capture_output=True, text=True, timeout=7200)
        line = [l for l in r.stdout.splitlines() if l.startswith("{")]
        return json.loads(line[-1]) if line else {"n": n, "w": w, "relax": relax, "P": P, "violation": "model crashed: rc=%d %s" % (r.returncode, r.stderr[-300:])}
    except Exception as e:
        return {"n": n, "w": w, "relax": relax, "P": P, "violation": "model error: %s" % e}


def scheduler_model_phase(pid, tier, seed):
    """all interleavings of the real scheduler code on every postordered forest: quick n<=5 (P=2,3); thorough P=2 n<=8, P=3 n<=6"""
    import multiprocessing as mp, os
    import core
    jobs = []
    for P in (2, 3):
        nmax = 5 if tier == "quick" else (8 if P == 2 else 6)
        for n in range(1, nmax + 1):
            for w in (1, 2, 3):
                for relax in (1, 2, 3):
                    jobs.append((n, w, relax, P, "asan"))
    jobs.sort(key=lambda j: -(j[0] * 10 + j[3] * 25))
    with mp.get_context("fork").Pool(14) as pool:
        res = pool.map(_model_job, jobs, chunksize=1)
    out = {"violations": [], "evaluations": 0, "distinct_nontrivial": 0, "states": 0, "transitions": 0, "model_configurations": len(jobs), "model_forests": 0,
           "model_exhaustive_bound": "every postordered forest with <=%s columns (P=2) / <=%s (P=3) x panel 1..3 x relax 1..3, all interleavings" % ((5, 5) if tier == "quick" else (8, 6)),
           "model_exhaustive": True}
    for r in res:
        out["states"] += int(r.get("states", 0)); out["transitions"] += int(r.get("transitions", 0)); out["model_forests"] += int(r.get("forests", 0))
        out["evaluations"] += int(r.get("forests", 0)); out["distinct_nontrivial"] += int(r.get("forests", 0)) if r.get("n", 0) >= 3 else 0
        if r.get("violation"):
            os.makedirs(os.path.join(core.VERIF, "replays", "found"), exist_ok=True)
            path = os.path.join(core.VERIF, "replays", "found", "%s_model_n%d_w%d_r%d_P%d.txt" % (pid, r["n"], r["w"], r["relax"], r["P"]))
            open(path, "w").write("schedmodel %d %d %d %d\n%s\n" % (r["n"], r["w"], r["relax"], r["P"], r["violation"]))
            out["violations"].append((path, {"v": "fail", "sig": "model:" + r["violation"][:60], "detail": r["violation"], "f": {}}))
    return out


# ---------------------------------------------------------------------------------------------- free-running stress phase
def star_forest_case(pid, n, P, hubs, seed, prec="d"):
    """diagonal + one entry per leaf column in a hub column: n-hubs one-column leaf panels hang under few parents (the hubs form
    a chain), so that many siblings finish at the same moment; free-running threads, sparse oracles only ('light')"""
    import random
    rnd = random.Random(seed)
    ent = [(i, i, 2.0 + rnd.random(), 0.0) for i in range(n)]
    for i in range(n - hubs):
        ent.append((i, n - hubs + rnd.randrange(hubs), 0.5 * rnd.random() + 0.1, 0.0))
    for k in range(n - hubs, n - 1):
        ent.append((k, k + 1, 0.3, 0.0))
    ent.sort(key=lambda e: (e[1], e[0]))
    s = {"prec": prec, "n": n, "m": n, "stype": "NC", "order": "0", "panel": rnd.choice([1, 1, 2]), "relax": 1, "maxsuper": rnd.choice([1, 4]), "rowblk": 200, "colblk": 100,
         "P": P, "sched": "free", "strategy": "uniform", "sparam": rnd.choice([0, 16, 1000]), "sched_seed": rnd.randrange(1, 2 ** 31), "via": "gstrf", "u": 1.0,
         "light": 1, "timeout_ms": 120000, "prop": pid}
    return {"set": s, "entries": ent, "family": "star_forest"}


def _stress_job(args):
    import core
    (pid, seed, widx, count, variant) = args
    import random
    rnd = random.Random(seed * 7919 + widx * 104729 + 5)
    r = core.Runner(variant); r.start()
    out = {"n": 0, "nt": 0, "fails": [], "timeouts": 0}
    for k in range(count):
        n = rnd.choice([300, 800, 2000, 3000]); P = rnd.choice([3, 4, 8, 8, 16]); hubs = rnd.choice([1, 1, 2, 5])
        case = star_forest_case(pid, n, P, hubs, rnd.randrange(1, 2 ** 31), rnd.choice(["d", "d", "s", "z"]))
        text = core.render(case); v = r.run(text)
        if v.get("v") == "timeout": out["timeouts"] += 1; continue
        out["n"] += 1
        if v.get("f", {}).get("thr_panels", 0) >= 2: out["nt"] += 1
        if v.get("v") in ("fail", "crash", "libexit"): out["fails"].append((text, v)); break
    r.close()
    return out


def free_stress_phase(pid, tier, seed, variant="asan"):
    """large star forests under free-running threads (races the token-passing controller cannot split, e.g. an unlocked
    read-modify-write): termination is decided by the progress-based deadlock detector, not by a wall-clock limit"""
    import multiprocessing as mp, os
    import core
    nw = 6; per = 10 if tier == "quick" else 120
    with mp.get_context("fork").Pool(nw) as pool:
        res = pool.map(_stress_job, [(pid, seed, w, per, variant) for w in range(nw)], chunksize=1)
    out = {"violations": [], "evaluations": 0, "distinct_nontrivial": 0, "stress_cases": 0, "stress_timeouts_inconclusive": 0,
           "stress_rule": "star forests n in {300..3000}, nprocs in {3,4,8,16}, free-running with injected delays; deadlock = every live worker spun 100000 times within one progress epoch"}
    for r in res:
        out["evaluations"] += r["n"]; out["distinct_nontrivial"] += r["nt"]; out["stress_cases"] += r["n"]; out["stress_timeouts_inconclusive"] += r["timeouts"]
        for (text, v) in r["fails"]:
            os.makedirs(os.path.join(core.VERIF, "replays", "found"), exist_ok=True)
            path = os.path.join(core.VERIF, "replays", "found", "%s_%s.case" % (pid, core.case_hash(text)))
            open(path, "w").write(text)
            out["violations"].append((path, v))
    return out
