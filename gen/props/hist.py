"""hist.py — generated call histories (stateful generation: the composite tracks a model state so that every operation
is applicable by construction)"""
import numpy as np
from hypothesis import strategies as st
import matrices as mx
from props.common import PRECS


@st.composite
def sched_tokens(draw, P):
    if P < 2:
        return ""
    mode = draw(st.sampled_from(["controlled", "controlled", "free"]))
    return " sched=%s strategy=%s sparam=%d seed=%d" % (mode, draw(st.sampled_from(["uniform", "sticky", "pct"])), draw(st.integers(0, 5)), draw(st.integers(1, 2 ** 31 - 1)))


@st.composite
def op_list(draw, maxlen=8, allow_other=False, allow_singular=False, pmax=4, need_refact=False, prec="d", sym_ok=False, allow_tune=False, allow_query=False):
    ops = []; have = False
    L = draw(st.integers(2, maxlen))
    k = 0
    while k < L:
        choices = []
        if not have:
            choices = ["FIRST", "FIRST", "GSSV"]
        else:
            choices = ["REFACT", "REFACT", "REFACT", "SOLVE", "SOLVE", "DESTROY", "GSSV"]
        if allow_other: choices.append("OTHER")
        if allow_tune and not have: choices.append("TUNE")
        if allow_query: choices.append("QUERY")
        if allow_singular: choices.append("GSSVX")
        c = draw(st.sampled_from(choices))
        P = draw(st.sampled_from([p for p in (1, 1, 2, 2, 3, 4) if p <= pmax]))
        u = draw(st.sampled_from([1.0, 1.0, 0.5, 0.1]))
        if c == "FIRST":
            ops.append("FIRST P=%d u=%s%s" % (P, u, draw(sched_tokens(P)))); have = True
        elif c == "REFACT":
            vals = draw(st.sampled_from(["scale", "flip", "redraw", "pivbreak", "pivbreak", "pivkeep"] + (["zerocol"] if allow_singular else [])))
            usepr = draw(st.sampled_from([0, 1, 1]))
            ops.append("REFACT P=%d u=%s usepr=%d vals=%s vseed=%d%s" % (P, u, usepr, vals, draw(st.integers(1, 10 ** 6)), draw(sched_tokens(P))))
        elif c == "SOLVE":
            ops.append("SOLVE trans=%s nrhs=%d bseed=%d" % (draw(st.sampled_from(["N", "T", "T", "C"] if True else [])), draw(st.sampled_from([1, 2, 3])), draw(st.integers(1, 10 ** 6))))
        elif c == "DESTROY":
            ops.append("DESTROY"); have = False
        elif c == "GSSVX":
            ops.append("GSSVX P=%d fact=%s trans=%s symm=%d u=%s nrhs=%d%s" % (P, draw(st.sampled_from(["DOFACT", "EQUILIBRATE"])), draw(st.sampled_from(["N", "T"])),
                                                                          0, 1.0, draw(st.sampled_from([1, 2])), draw(sched_tokens(P))))
            if sym_ok and not any("vals=zerocol" in o for o in ops) and draw(st.booleans()):     # symmetric mode (never after a column was zeroed: the diagonal is no longer dominant): threshold 0 on a matrix with a dominant diagonal (C16's precondition)
                ops[-1] = ops[-1].replace("symm=0 u=1.0", "symm=1 u=0.0")
        elif c == "GSSV":
            ops.append("GSSV P=%d nrhs=%d%s" % (P, draw(st.sampled_from([1, 2])), draw(sched_tokens(P))))
        elif c == "QUERY":
            ops.append("QUERY P=%d via=%s" % (P, draw(st.sampled_from(["gstrf", "gssvx"]))))
        elif c == "TUNE":
            t = mx.fix_tunables(draw(mx.tunables))
            ops.append("TUNE panel=%d relax=%d maxsuper=%d rowblk=%d colblk=%d" % (t["panel"], t["relax"], t["maxsuper"], t["rowblk"], t["colblk"]))
        elif c == "OTHER":
            # while factors of the history's own matrix are live, an interleaved system must be of another precision: a
            # refactorization takes its storage sizes from per-precision static state (outside C08's and C18's claims; see DESIGN)
            oprec = draw(st.sampled_from([p for p in "sdcz" if (p != prec or not have)]))
            ops.append("OTHER prec=%s n=%d seed=%d P=%d mode=%s order=%d" % (oprec, draw(st.integers(1, 14)), draw(st.integers(1, 10 ** 6)),
                                                                          draw(st.sampled_from([1, 2])), draw(st.sampled_from(["ok", "ok", "singular"])), draw(st.integers(0, 3))))
        k += 1
    if need_refact and not any(o.startswith("REFACT") for o in ops):
        if not have: ops.append("FIRST P=1 u=1.0")
        ops.append("REFACT P=2 u=1.0 usepr=1 vals=pivbreak vseed=7 sched=controlled strategy=uniform sparam=0 seed=5")
        ops.append("SOLVE trans=N nrhs=1 bseed=3")
    return ops


@st.composite
def hist_case(draw, nmax=30, maxlen=8, allow_other=False, allow_singular=False, precs=PRECS, pmax=4, user_ws=False, allow_tune=False, allow_query=False):
    prec = draw(st.sampled_from(list(precs)))
    rec = draw(mx.recipe(2, nmax, None, ("dominant",), allow_zero_diag=True))
    entries = mx.entries_of(rec, prec)
    if draw(st.integers(0, 11)) == 0:       # structurally diagonal matrix: empty adjacency structure in the orderings / symmetric mode
        entries = [e for e in entries if e[0] == e[1]] or entries
        if len(entries) < rec["n"]: entries = [(i, i, 2.0 + i, 0.0) for i in range(rec["n"])]
        rec["family"] = "diagonal"
    tun = mx.fix_tunables(draw(mx.tunables))
    s = {"prec": prec, "n": rec["n"], "m": rec["n"], "stype": "NC", "order": draw(st.sampled_from(["0", "1", "2", "3"]))}
    s.update(tun)
    sym_ok = (not rec.get("zero_diag")) and rec.get("permute") in (0, 1)
    ops = draw(op_list(maxlen, allow_other, allow_singular, pmax, False, prec, sym_ok, allow_tune, allow_query))
    if user_ws and not any(o.startswith("TUNE") for o in ops) and draw(st.integers(0, 2)) == 0:
        # the whole history runs in a caller-supplied workspace sized from the library's own query (for 4 threads)
        s["ws_factor"] = draw(st.sampled_from([1.5, 2.0, 4.0])); s["ws_P"] = 4
        if draw(st.integers(0, 2)) == 0:
            # ... or sized for a single thread: a later step with more threads may legitimately run out of it (info > n), but must
            # never take its work areas from the space that holds the factors
            s["ws_factor"] = draw(st.sampled_from([1.0, 1.02, 1.1, 1.25])); s["ws_P"] = 1; s["ws_tight"] = 1
    return {"set": s, "entries": entries, "ops": ops, "family": rec["family"]}


def hist_classes(case, v):
    f = v.get("f", {}); s = case["set"]; ops = case["ops"]
    labs = ["prec=" + s["prec"], "family=" + case.get("family", "?"), "len=%d" % len(ops), "verdict=" + v.get("v", "?")]
    kinds = set(o.split()[0] for o in ops)
    labs += ["has_" + k for k in sorted(kinds)]
    if any("usepr=1" in o for o in ops): labs.append("has_usepr")
    if any("pivbreak" in o for o in ops): labs.append("has_pivbreak")
    if f.get("usepr_kept", 0): labs.append("usepr_kept")
    if f.get("usepr_fallback", 0): labs.append("usepr_fallback")
    if f.get("singular_steps", 0): labs.append("singular_step")
    if any(" P=2" in o or " P=3" in o or " P=4" in o for o in ops): labs.append("has_parallel_step")
    if s.get("ws_factor"): labs.append("user_workspace x%s" % s["ws_factor"])
    if f.get("ws_exhausted", 0): labs.append("tight_workspace_ran_out(info>n)")
    if "TUNE" in kinds and f.get("tunes", 0): labs.append("tunables_changed_between_factorizations")
    if v.get("v") == "fail": labs.append("sig=" + v.get("sig", ""))
    return labs
