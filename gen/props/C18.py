"""C18 — calls are independent of what was factored before (no hidden state carry-over)"""
from hypothesis import strategies as st
from props.hist import hist_case, hist_classes
import core

ID = "C18"
LEVEL = "exploration"
RULE = ("cases = (prefix history, probe) pairs: prefix drawn from the C08/C17 alphabet (first/refactor/solve/destroy, one-shot drivers, singular "
        "steps, independent systems of other sizes and other precisions s/d/c/z, changes of the sp_ienv blocking parameters between first-time factorizations); probe = a first-time factorization (FIRST after DESTROY) or a "
        "simple-driver solve or an expert-driver call (X, rcond, pivot growth, ferr, berr, scalings) with one thread and the built-in kernels; oracle = differential: the probe is executed once after the prefix and "
        "once in a fresh process on the same values; info, perm_r, perm_c, the validated L/U (structure and values) and X must be "
        "bit-identical (hash compare); the history oracles of C08 run on both. non-trivial = the prefix contains a same-precision call of "
        "another size, a change of blocking parameters, a refactorization or a singular/failed step; distinct = case text")
ASSUMPTIONS = ["probes use nprocs=1 so that the bitwise clause applies; rounding-level agreement for nprocs>=2 is covered by the C01/C02 bounds on both runs"]
BUDGET = {
    "quick": {"examples": 7000, "workers": 14, "time_budget": 90, "variants": ["asan"]},
    "thorough": {"examples": 80000, "workers": 14, "time_budget": 1300, "variants": ["asan", "long"], "variant_share": {"asan": 0.8, "long": 0.2}},
}


@st.composite
def c18_case(draw, nmax=24, maxlen=6):
    case = draw(hist_case(nmax=nmax, maxlen=maxlen, allow_other=True, allow_singular=True, user_ws=True, allow_tune=True))
    # value changes must not depend on the factorization state (the fresh run repeats them without the prefix)
    ops = [o.replace("vals=pivbreak", "vals=flip").replace("vals=pivkeep", "vals=redraw") for o in case["ops"]]
    # make sure a VALUES-neutral probe can be replayed alone: undo value changes is impossible, so the probe alone runs on the values
    # that are current at the probe: we therefore move all value changes into explicit VALUES ops that the fresh run repeats too
    have = False
    for o in ops:
        if o.startswith("FIRST"): have = True
        elif o.startswith("DESTROY"): have = False
    if have: ops.append("DESTROY")
    probe = draw(st.sampled_from(["FIRST P=1 u=1.0", "GSSV P=1 nrhs=2", "FIRST P=1 u=0.5", "GSSVX P=1 fact=DOFACT trans=N symm=0 u=1.0 nrhs=2",
                                  "GSSVX P=1 fact=EQUILIBRATE trans=T symm=0 u=1.0 nrhs=1"]))
    ops.append(probe)
    if probe.startswith("FIRST") and draw(st.booleans()):
        ops.append("SOLVE trans=%s nrhs=2 bseed=11" % draw(st.sampled_from(["N", "T"])))
    case["ops"] = ops
    return case


def strategy(tier):
    return c18_case(24 if tier == "quick" else 60, 6 if tier == "quick" else 12)


def evaluate(case, runner):
    """returns a list of (text, verdict): prefix+probe run, fresh run, and the differential verdict"""
    ops = case["ops"]
    # index of the probe: last FIRST/GSSV
    pi = max(i for i, o in enumerate(ops) if o.startswith("FIRST") or o.startswith("GSSV"))      # (GSSV also matches GSSVX)
    # value changes of the prefix must be reproduced in the fresh run: replace REFACT by VALUES (same mode, seed), drop the rest
    fresh_ops = []
    have = False
    for o in ops[:pi]:
        if o.startswith("FIRST"): have = True
        elif o.startswith("DESTROY"): have = False
        elif o.startswith("TUNE"): fresh_ops.append(o)       # the blocking parameters in force at the probe are the probe's own arguments
        elif o.startswith("REFACT") and have:
            toks = dict(t.split("=") for t in o.split()[1:] if "=" in t)
            fresh_ops.append("VALUES vals=%s vseed=%s" % (toks.get("vals", "scale"), toks.get("vseed", "1")))
    fresh_ops += ops[pi:]
    c1 = dict(case); c1["set"] = dict(case["set"]); c1["set"]["prop"] = ID
    t1 = core.render(c1); v1 = runner.run(t1)
    c2 = dict(c1); c2["ops"] = fresh_ops
    t2 = core.render(c2); v2 = runner.run(t2)
    out = [(t1, v1), (t2, v2)]
    if v1.get("v") == "pass" and v2.get("v") == "pass":
        h1 = v1.get("f", {}).get("probe_hash"); h2 = v2.get("f", {}).get("probe_hash")
        if h1 is not None and h2 is not None and h1 != h2:     # (a history that legitimately ended early, e.g. tight workspace ran out, has no probe)
            v = {"v": "fail", "sig": "C18:probe_differs_after_prefix", "detail": "probe result hash %s after the prefix vs %s in a fresh process (info/perms/L/U/X not bit-identical)" % (h1, h2), "f": v1.get("f", {})}
            out.append((t1 + "# fresh-run ops:\n" + "".join("# op " + o + "\n" for o in fresh_ops), v))
    return out


def replay_text(text, runner):
    """a saved C18 case: run the history; when it carries the fresh-process operation list (written by evaluate) also run that and
    compare the probe hashes"""
    lines = text.split("\n")
    fresh = [l[len("# op "):] for l in lines if l.startswith("# op ")]
    main = "\n".join(l for l in lines if not l.startswith("#")) 
    if not main.endswith("\n"): main += "\n"
    v1 = runner.run(main)
    if not fresh or v1.get("v") != "pass":
        return v1
    t2 = "\n".join(l for l in main.split("\n") if not l.startswith("op ") and l != "") + "\n" + "".join("op " + o + "\n" for o in fresh)
    v2 = runner.run(t2)
    if v2.get("v") != "pass":
        return v2
    h1 = v1.get("f", {}).get("probe_hash"); h2 = v2.get("f", {}).get("probe_hash")
    if h1 is not None and h2 is not None and h1 != h2:
        return {"v": "fail", "sig": "C18:probe_differs_after_prefix", "detail": "probe result hash %s after the prefix vs %s in a fresh process (info/perms/L/U/X not bit-identical)" % (h1, h2), "f": v1.get("f", {})}
    return v1


def nontrivial(case, v):
    ops = case["ops"]; prec = case["set"]["prec"]
    return any(o.startswith("TUNE") for o in ops) or any(o.startswith("OTHER prec=%s" % prec) for o in ops) or any(o.startswith("REFACT") for o in ops) or v.get("f", {}).get("singular_steps", 0) > 0


classify = hist_classes
