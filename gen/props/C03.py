"""C03 — no column is consumed before it is final, under every interleaving"""
from hypothesis import strategies as st
from props.common import factor_case, std_classes

ID = "C03"
LEVEL = "exploration"
RULE = ("cases = structured matrices with bushy and chain-like elimination trees (arrowhead, block-diagonal+coupling, forests, grids, stars, "
        "banded, chains, random) x panel 1..4 x relax 1..4 x nprocs 2..6 x controlled schedule (uniform / sticky / PCT with change points) "
        "or free-running with delays; oracle = history monitor over the SLU_MT_VERIF event stream of the real code: every update source "
        "supernode is pivoted+released before it is read (done-phase, busy-phase and in-panel updates), each (panel, source supernode) update "
        "is applied at most once, no thread rewrites the pruned subscript list of a supernode while another thread traverses that list (I3, from hooks at every list-traversal start in the DFS routines and around the rewrite in pxgstrf_pruneL, which are also yield points of the controlled scheduler), at every scheduler take all not-yet-final descendant columns lie on the single busy chain the scheduler "
        "reported and later waits only touch that chain, all descendants final before the inner factorization starts; plus the numerical "
        "consequence: C02 reconstruction bound on the returned factors. non-trivial = >=1 take with an unfinished busy chain whose wait "
        "actually blocked and >=1 prune while another thread's panel DFS was open; distinct = case text (incl. schedule seed)")
ASSUMPTIONS = ["interleavings between two hook points are not separated in controlled mode (free mode samples them)",
               "the at-least-once half of 'exactly once' is decided numerically by the reconstruction bound"]
BUDGET = {
    "quick": {"examples": 21000, "workers": 14, "time_budget": 80, "variants": ["asan", "omp"], "variant_share": {"asan": 0.79, "omp": 0.21}},
    "thorough": {"examples": 250000, "workers": 14, "time_budget": 1300, "variants": ["asan", "vendor", "omp", "long"], "variant_share": {"asan": 0.5, "vendor": 0.15, "omp": 0.25, "long": 0.1}},
}
FAMS = ["arrow", "blockdiag", "forest", "grid", "star", "banded", "chain", "random", "staircase"]


@st.composite
def c03_case(draw, nmin=4, nmax=60, pmax=6):
    case = draw(factor_case(nmin=nmin, nmax=nmax, families=FAMS, pmin=2, pmax=pmax, with_rhs=False, stypes=("NC",), small_explicit_share=0.05,
                            valdists=("generic", "dominant"), precs=["d", "d", "d", "s", "z", "c"]))
    s = case["set"]
    s["via"] = "gstrf"; s["u"] = draw(st.sampled_from([1.0, 1.0, 0.5, 0.0]))
    s["panel"] = draw(st.sampled_from([1, 2, 2, 3, 4])); s["relax"] = draw(st.sampled_from([1, 1, 2, 3, 4]))
    if s["relax"] > s["maxsuper"]:
        s["maxsuper"] = s["relax"]
    return case


def strategy(tier):
    if tier == "quick":
        return c03_case()
    return st.one_of(c03_case(nmax=80, pmax=6), c03_case(nmin=60, nmax=300, pmax=6))


def nontrivial(case, v):
    f = v.get("f", {})
    return f.get("takes_with_busy", 0) >= 1 and f.get("blocked_waits", 0) >= 1 and (f.get("prune_while_dfs", 0) >= 1 or f.get("prune_during_read", 0) >= 1)


def classify(case, v):
    labs = std_classes(case, v); f = v.get("f", {})
    labs.append("strategy=" + str(case["set"].get("strategy")))
    if f.get("takes_with_busy", 0) >= 1: labs.append("take_with_unfinished_chain")
    if f.get("prune_while_dfs", 0) >= 1: labs.append("prune_while_other_dfs_open")
    if f.get("upd_busy", 0) >= 1: labs.append("busy_phase_update")
    if f.get("prune_during_read", 0) >= 1: labs.append("prune_of_a_supernode_another_thread_is_traversing")
    return labs


def extra_phase(tier, seed):
    from props.common import scheduler_model_phase
    return scheduler_model_phase(ID, tier, seed)
