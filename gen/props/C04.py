"""C04 — factorization terminates, does each panel exactly once, leaves no threads"""
from hypothesis import strategies as st
from props.common import factor_case, std_classes

ID = "C04"
LEVEL = "exploration"
TIMEOUT_IS_FAILURE = False
RULE = ("cases = matrices of all families (incl. exactly singular ones) x nprocs in {1..8, n+3, 24, 40} x controlled schedules (deadlock = "
        "400000 consecutive spin steps with no thread progressing) or free-running under CPU oversubscription with injected delays (deadlock = every live worker spun 100000 times "
        "within one progress epoch), plus a free-running stress phase on star forests with up to 3000 one-column leaf panels; "
        "oracle = monitor: every panel taken exactly once, tasks_remain equals the number of untaken panels at every scheduler call and is 0 "
        "at the end, queue tail <= n and head/tail/count consistent, every column released exactly once by the thread that took its panel, "
        "every panel DONE at finalize, thread starts == thread exits == nprocs, /proc/self/task count equal before and after the call. "
        "non-trivial = >=2 threads took panels, or nprocs > #panels, or the matrix is singular; distinct = case text")
ASSUMPTIONS = ["liveness is decided as absence of a dead state met by the controller plus no timeout in free mode (a timeout alone is inconclusive)"]
BUDGET = {
    "quick": {"examples": 21000, "workers": 14, "time_budget": 80, "variants": ["asan", "omp"], "variant_share": {"asan": 0.79, "omp": 0.21}},
    "thorough": {"examples": 250000, "workers": 14, "time_budget": 1300, "variants": ["asan", "vendor", "omp", "long"], "variant_share": {"asan": 0.5, "vendor": 0.15, "omp": 0.25, "long": 0.1}},
}


@st.composite
def c04_case(draw, nmax=40):
    case = draw(factor_case(nmax=nmax, pmax=8, with_rhs=False, stypes=("NC",), modes=("controlled", "controlled", "free")))
    s = case["set"]
    s["via"] = "gstrf"; s["u"] = 1.0
    bigP = draw(st.sampled_from([0, 0, 0, 1, 2, 3]))
    if bigP:
        s["P"] = {1: s["n"] + 3, 2: 24, 3: 40}[bigP]
        s["sched"] = draw(st.sampled_from(["controlled", "free"])); s.setdefault("strategy", "uniform"); s.setdefault("sparam", 2)
        s.setdefault("sched_seed", draw(st.integers(1, 2 ** 31 - 1)))
    if draw(st.integers(0, 9)) == 0 and case["entries"]:
        # make it exactly singular: zero out one stored column (explicit zeros), keep structure
        j0 = case["entries"][draw(st.integers(0, len(case["entries"]) - 1))][1]
        case["entries"] = [(i, j, 0.0 if j == j0 else a, 0.0 if j == j0 else b) for (i, j, a, b) in case["entries"]]
        s["expect_singular_ok"] = 1
        case["singular"] = True
    s["timeout_ms"] = 60000
    return case


def strategy(tier):
    return c04_case(40 if tier == "quick" else 150)


def nontrivial(case, v):
    f = v.get("f", {}); s = case["set"]
    return f.get("thr_panels", 0) >= 2 or s.get("P", 1) > f.get("npanels", 10 ** 9) or case.get("singular", False)


def classify(case, v):
    labs = std_classes(case, v); f = v.get("f", {})
    if case["set"].get("P", 1) > f.get("npanels", 10 ** 9): labs.append("nprocs>npanels")
    if case.get("singular"): labs.append("singular_input")
    return labs


def extra_phase(tier, seed):
    from props.common import scheduler_model_phase, free_stress_phase
    out = scheduler_model_phase(ID, tier, seed)
    st2 = free_stress_phase(ID, tier, seed)
    out["violations"] += st2.pop("violations"); out["evaluations"] += st2.pop("evaluations"); out["distinct_nontrivial"] += st2.pop("distinct_nontrivial")
    out.update(st2)
    return out
