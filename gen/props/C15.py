"""C15 — illegal arguments yield info = -i for the first offender and no side effects"""
from hypothesis import strategies as st
from props.common import factor_case

ID = "C15"
LEVEL = "exploration"
RULE = ("cases = for each of p?gssv, p?gssvx, ?gstrs, ?gsrfs, ?gscon, ?gsequ, sp_?trsv, sp_?gemv (x4 precisions): a valid call environment "
        "(small matrix, its L/U from a real factorization, B, X, scale vectors, options) and then one or two argument violations from a "
        "table (non-positive nprocs; non-square / negative-sized / wrongly typed A, L, U, B, X; illegal fact/trans/refact/usepr; lwork<-1; "
        "leading dimension too small; X.ncol != B.ncol; illegal equed or non-positive R/C with FACTORED; illegal character options; zero "
        "increments); oracle = the error handler is called exactly once with the routine's name and the documented position of the FIRST "
        "offender in the routine's own argument list, info = -position, checksums of A, B, X, L, U and both permutations unchanged, "
        "interposed-allocator live-set unchanged. non-trivial = two simultaneous violations, or the offending argument is at position >= 3; "
        "distinct = case text")
ASSUMPTIONS = ["expected positions are taken from each routine's own 'Arguments' list"]
BUDGET = {
    "quick": {"examples": 14000, "workers": 14, "time_budget": 80, "variants": ["asan"]},
    "thorough": {"examples": 150000, "workers": 14, "time_budget": 900, "variants": ["asan"]},
}
# routine -> {violation: documented position}
TABLE = {
    "gssv": {"nprocs.zero": 1, "nprocs.neg": 1, "A.nonsquare": 2, "A.stype": 2, "A.dtype": 2, "A.mtype": 2, "B.negcol": 7, "B.lda": 7},
    "gssvx": {"nprocs.zero": 1, "opt.fact": 2, "opt.trans": 2, "opt.refact": 2, "opt.usepr": 2, "opt.lwork": 2, "A.nonsquare": 3, "A.stype": 3, "A.dtype": 3, "A.mtype": 3,
              "equed.bad": 6, "R.nonpos": 7, "C.nonpos": 8, "RC.nonpos": 7, "B.lda": 11, "B.stype": 11, "B.dtype": 11, "B.negcol": 11, "X.lda": 12, "X.ncol": 12, "X.stype": 12, "X.dtype": 12},
    "gstrs": {"trans.bad": 1, "L.nonsquare": 2, "U.nonsquare": 3, "B.lda": 6},
    "gsrfs": {"trans.bad": 1, "A.nonsquare": 2, "A.stype_nr": 2, "A.dtype": 2, "L.nonsquare": 3, "L.stype": 3, "L.mtype": 3, "U.nonsquare": 4, "U.dtype": 4, "U.mtype": 4, "B.lda": 10, "B.stype": 10, "X.lda": 11, "X.dtype": 11},
    "gscon": {"norm.bad": 1, "L.nonsquare": 2, "L.stype": 2, "L.dtype": 2, "U.nonsquare": 3, "U.mtype": 3, "U.stype": 3},
    "gsequ": {"A.stype_nr": 1, "A.dtype": 1, "A.mtype": 1},
    "sp_trsv": {"uplo.bad": 1, "tr.bad": 2, "diag.bad": 3, "L.nonsquare": 4, "U.nonsquare": 5},
    "sp_gemv": {"tr.bad": 1, "A.negdim": 3, "A.negcol": 3, "A.negrow": 3, "incx.zero": 5, "incy.zero": 8},
}
CONFLICT = [("RC.nonpos", "R.nonpos"), ("RC.nonpos", "C.nonpos"), ("RC.nonpos", "equed.bad"), ("RC.nonpos", "opt.fact"), ("equed.bad", "R.nonpos"), ("equed.bad", "C.nonpos"), ("R.nonpos", "C.nonpos"), ("opt.fact", "equed.bad"), ("opt.fact", "R.nonpos"), ("opt.fact", "C.nonpos"),
            ("A.nonsquare", "A.negdim"), ("B.negcol", "X.ncol"), ("A.negdim", "A.negcol"), ("A.negdim", "A.negrow"), ("A.negcol", "A.negrow")]


@st.composite
def c15_case(draw):
    case = draw(factor_case(nmin=3, nmax=12, pmax=1, with_rhs=False, stypes=("NC",), valdists=("dominant",), small_explicit_share=0.0, orders=("0", "1", "3")))
    routine = draw(st.sampled_from(sorted(TABLE)))
    tab = TABLE[routine]
    v1 = draw(st.sampled_from(sorted(tab)))
    viols = [v1]
    if draw(st.booleans()) and len(tab) > 1:
        v2 = draw(st.sampled_from(sorted(tab)))
        if v2 != v1 and (v1, v2) not in CONFLICT and (v2, v1) not in CONFLICT and v1.split(".")[0] != v2.split(".")[0]:
            viols.append(v2)
    s = case["set"]; s["via"] = "gstrf"; s["u"] = 1.0; s["P"] = 1; s["sched"] = "none"
    expect = min(tab[v] for v in viols)
    # an empty but legal problem (no right-hand sides) around the violation: the argument tests come before any quick return
    if routine in ("gsrfs", "gstrs", "gssvx") and not any(v in ("B.negcol", "X.ncol") for v in viols) and draw(st.integers(0, 3)) == 0:
        viols = ["nrhs.zero"] + viols
    s["routine"] = routine; s["viol"] = ",".join(viols); s["expect"] = expect
    case["routine"] = routine; case["viols"] = viols
    return case


def strategy(tier):
    return c15_case()


def nontrivial(case, v):
    return len(case["viols"]) >= 2 or case["set"]["expect"] >= 3


def classify(case, v):
    labs = ["routine=" + case["routine"], "prec=" + case["set"]["prec"], "nviol=%d" % len(case["viols"]), "expect=%d" % case["set"]["expect"], "verdict=" + v.get("v", "?")]
    labs += ["viol=" + x for x in case["viols"]]
    if v.get("v") == "fail": labs.append("sig=" + v.get("sig", ""))
    return labs
