"""C16 — symmetric mode with diagonal pivoting is correct and keeps diagonal pivots"""
from hypothesis import strategies as st
from props.common import expert_case, expert_classes

ID = "C16"
LEVEL = "exploration"
RULE = ("cases = structurally symmetric and unsymmetric patterns with a full diagonal (optionally symmetrically permuted), values strictly "
        "diagonally dominant by rows and columns, or by rows only (so that an off-diagonal candidate can exceed the diagonal and threshold 0 "
        "matters) x SymmetricMode=YES, ordering on A'+A (option 2) or natural/random symmetric, threshold 0 x s/d/c/z x nprocs 1..6 x "
        "controlled/free schedules x static/dynamic-free storage; oracle = C01/C02/C07 oracles of the expert driver, perm_r == perm_c "
        "elementwise, every pivot is the original diagonal, slot-bound monitor of C05 (the Cholesky-of-A'+A prediction reserved the slots), "
        "ASan clean. non-trivial = n >= 8 and (a multiplier exceeds 1, i.e. the diagonal was not the largest candidate, or nprocs >= 2 with "
        ">= 2 threads taking panels); distinct = case text")
ASSUMPTIONS = ["row diagonal dominance is preserved by elimination, so the diagonal stays nonzero"]
BUDGET = {
    "quick": {"examples": 14000, "workers": 14, "time_budget": 90, "variants": ["asan"]},
    "thorough": {"examples": 200000, "workers": 14, "time_budget": 1300, "variants": ["asan", "vendor"], "variant_share": {"asan": 0.75, "vendor": 0.25}},
}


@st.composite
def c16_case(draw, nmax=40):
    case = draw(expert_case(nmax=nmax, kinds=("recipe",), pmax=6, facts=("DOFACT", "DOFACT", "EQUILIBRATE"), transes=("N", "N", "T"),
                            stypes=("NC",), valdists=("dominant", "rowdom", "rowdom")))
    s = case["set"]
    # full diagonal: rebuild entries without zero_diag / unsymmetric permutation (expert_case may have drawn them)
    return case


def strategy(tier):
    import matrices as mx
    from props.common import PRECS
    import numpy as np

    @st.composite
    def gen(draw):
        prec = draw(st.sampled_from(PRECS))
        rec = draw(mx.recipe(1, 40 if tier == "quick" else 120, None, ("dominant", "rowdom", "rowdom"), allow_zero_diag=False))
        rec["permute"] = draw(st.sampled_from([0, 1]))        # symmetric permutation only: the diagonal stays the transversal
        n = rec["n"]
        entries = mx.entries_of(rec, prec)
        tun = mx.fix_tunables(draw(mx.tunables)); sch = draw(mx.schedule(1, 6, ("controlled", "controlled", "free")))
        s = {"prec": prec, "n": n, "m": n, "stype": "NC", "order": draw(st.sampled_from(["2", "2", "0"])), "symm": 1, "u": 0.0,
             "fact": draw(st.sampled_from(["DOFACT", "DOFACT", "EQUILIBRATE"])), "trans": draw(st.sampled_from(["N", "N", "T"])),
             "nrhs": draw(st.sampled_from([1, 2])), "ldb": n, "ldx": n}
        s.update(tun); s.update(sch)
        rs = np.random.default_rng(rec["fill_seed"] ^ 77)
        b = [(float(np.float32(rs.uniform(-2, 2))), float(np.float32(rs.uniform(-2, 2))) if prec in "cz" else 0.0) for _ in range(n * s["nrhs"])]
        return {"set": s, "entries": entries, "b": b, "family": rec["family"], "kind": "recipe", "scal": "none", "valdist": rec["valdist"]}
    return gen()


def nontrivial(case, v):
    f = v.get("f", {}); s = case["set"]
    return s["n"] >= 8 and f.get("info", -1) == 0 and ((f.get("max_multiplier", 0) or 0) > 1.0 or (s.get("P", 1) >= 2 and f.get("thr_panels", 0) >= 2))


def classify(case, v):
    labs = expert_classes(case, v)
    labs.append("valdist=" + case.get("valdist", "?"))
    if (v.get("f", {}).get("max_multiplier", 0) or 0) > 1.0: labs.append("diagonal_not_largest_candidate")
    return labs
