"""C09 — returned L, U and permutations are well-formed data structures"""
from hypothesis import strategies as st
from props.common import std_classes
from props.C02 import c02_case

ID = "C09"
LEVEL = "exploration"
RULE = ("cases = every successful factorization produced by the C02 generator (p?gstrf path and simple driver, all precisions, tunables, "
        "nprocs, controlled/free schedules); oracle = validate_LU predicate written from supermatrix.h and the consumers' access patterns: "
        "permutations bijective, supernodes partition the columns with consistent maps, row lists start with own columns then distinct "
        "larger rows, nzval stride/contiguity, extents pairwise disjoint, U rows strictly above the supernode and duplicate-free, "
        "nnz fields equal counted entries, supernode index order respects the triangular dependency order. "
        "non-trivial = nprocs>=2 with supernode numbering not monotone in column order, or a supernode of >=2 columns; distinct = case text")
ASSUMPTIONS = ["only info = 0 returns are asserted (singular returns are C06)"]
BUDGET = {
    "quick": {"examples": 28000, "workers": 14, "time_budget": 80, "variants": ["asan"]},
    "thorough": {"examples": 300000, "workers": 14, "time_budget": 1300, "variants": ["asan", "vendor"], "variant_share": {"asan": 0.7, "vendor": 0.3}},
}


def strategy(tier):
    if tier == "quick":
        return c02_case(pmax=4)
    return st.one_of(c02_case(nmax=60, pmax=8), c02_case(nmin=40, nmax=250, pmax=8, small=0.0))


def nontrivial(case, v):
    f = v.get("f", {})
    return f.get("info", 1) == 0 and ((case["set"].get("P", 1) >= 2 and f.get("sup_monotone", 1) == 0) or f.get("maxsup", 0) >= 2)


classify = std_classes
