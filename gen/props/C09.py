"""C09 — returned L, U and permutations are well-formed data structures"""
from hypothesis import strategies as st
from props.common import std_classes
from props.C02 import c02_case
from props.hist import hist_case

ID = "C09"
LEVEL = "exploration"
RULE = ("cases = every successful factorization produced by the C02 generator (p?gstrf path and simple driver, all precisions, tunables, "
        "nprocs, controlled/free schedules); oracle = validate_LU predicate written from supermatrix.h and the consumers' access patterns: "
        "permutations bijective, supernodes partition the columns with consistent maps, row lists start with own columns then distinct "
        "larger rows, nzval stride/contiguity, extents pairwise disjoint, U rows strictly above the supernode and duplicate-free, "
        "nnz fields equal counted entries, supernode index order respects the triangular dependency order. "
        "non-trivial = nprocs>=2 with supernode numbering not monotone in column order, or a supernode of >=2 columns; distinct = case text")
ASSUMPTIONS = ["only info = 0 returns are asserted (singular returns are C06)"]
BUDGET = {
    "quick": {"examples": 28000, "workers": 14, "time_budget": 80, "variants": ["asan"]},
    "thorough": {"examples": 300000, "workers": 14, "time_budget": 1300, "variants": ["asan", "vendor", "omp", "long", "nohook"], "variant_share": {"asan": 0.5, "vendor": 0.2, "omp": 0.1, "long": 0.1, "nohook": 0.1}},
}


def _as_c08(c):
    c["set"]["prop"] = "C08"; c["set"]["via"] = "history"; c["set"].setdefault("u", 1.0); c["set"].setdefault("P", 1); return c


def strategy(tier):
    # refactored factorizations (refact=YES, with and without reuse of the row order) come from the history generator
    if tier == "quick":
        return st.one_of(c02_case(pmax=4), c02_case(pmax=4), hist_case(nmax=30, maxlen=5).map(_as_c08))
    return st.one_of(c02_case(nmax=60, pmax=8), c02_case(nmin=40, nmax=250, pmax=8, small=0.0), hist_case(nmax=60, maxlen=10).map(_as_c08))


def nontrivial(case, v):
    f = v.get("f", {})
    if case["set"].get("via") == "history":
        return f.get("refacts", 0) > 0
    return f.get("info", 1) == 0 and ((case["set"].get("P", 1) >= 2 and f.get("sup_monotone", 1) == 0) or f.get("maxsup", 0) >= 2)


def classify(case, v):
    if case["set"].get("via") == "history":
        from props.hist import hist_classes
        return ["via=history"] + hist_classes(case, v)
    return std_classes(case, v)
