"""C10 — orderings are bijections; preprocessing yields A*Pc and its postordered etree"""
import os, json, time, multiprocessing as mp
import numpy as np
from hypothesis import strategies as st
import matrices as mx
import core

ID = "C10"
LEVEL = "exploration"
RULE = ("cases = m x n sparsity patterns (rectangular for the orderings on A'A, square for sp_colorder) incl. empty rows/columns, dense rows, "
        "disconnected blocks, diagonal-only, all recipe families, n up to 120 (300 thorough, >100 so that COLAMD's dense-row logic is reached) "
        "x ordering option 0..3 or a random caller permutation x SymmetricMode on/off; oracle = get_perm_c returns a bijection and leaves A "
        "untouched; sp_colorder: column Pc(j) of A*Pc is column j of A with shared value/row arrays, A byte-identical, the change of the "
        "caller's ordering is a postorder of the reference elimination tree of A*Pc_in (fill recurrence on the boolean (AC)'(AC), or "
        "Pc(A+A')Pc' in symmetric mode), the reported etree equals that tree relabelled AND the tree of the final A*Pc, every subtree is a "
        "contiguous interval ending at its root, part_super_h tiles 0..n-1. Bounded-exhaustive part: every 0/1 pattern of "
        "order <=3 (quick) / <=4 (thorough) x option 0..3 x both modes. non-trivial = etree has >=2 roots or a node with >=2 children and the "
        "postorder is not the identity; distinct = case text")
ASSUMPTIONS = ["sp_colorder is exercised on square patterns only (the drivers require square A)"]
BUDGET = {
    "quick": {"examples": 14000, "workers": 12, "time_budget": 70, "variants": ["asan"]},
    "thorough": {"examples": 200000, "workers": 14, "time_budget": 1000, "variants": ["asan"]},
}


@st.composite
def c10_case(draw, nmax=60):
    kind = draw(st.sampled_from(["recipe", "recipe", "raw", "raw", "big"]))
    seed = draw(st.integers(0, 2 ** 32 - 1)); rng = np.random.default_rng(seed)
    if kind == "recipe":
        rec = draw(mx.recipe(1, nmax, None, ("generic",), True)); n = m = rec["n"]
        ent = [(i, j, 1.0, 0.0) for (i, j, a, b) in mx.entries_of(rec, "d")]
        fam = rec["family"]
    else:
        n = draw(st.integers(1, nmax)) if kind == "raw" else draw(st.integers(101, 2 * nmax + 101))
        m = n if draw(st.integers(0, 3)) else n + draw(st.integers(1, 8))
        dens = draw(st.sampled_from([0.02, 0.08, 0.3]))
        S = set()
        for j in range(n):
            k = rng.binomial(m, dens) if draw(st.integers(0, 9)) else 0     # some empty columns
            for i in rng.integers(0, m, k): S.add((int(i), j))
        for _ in range(draw(st.integers(0, 3))):                           # dense rows
            r = int(rng.integers(m))
            for j in range(n):
                if rng.random() < 0.95: S.add((r, j))
        if draw(st.booleans()):
            for j in range(min(m, n)): S.add((j, j))
        ent = [(i, j, 1.0, 0.0) for (i, j) in sorted(S, key=lambda t: (t[1], t[0]))]
        fam = kind
    s = {"prec": "d", "m": m, "n": n, "stype": "NC", "symm": draw(st.sampled_from([0, 0, 1])) if m == n else 0}
    order = draw(st.sampled_from(["0", "1", "2", "3", "3", "user"]))
    if m != n and order in ("2", "0"): order = draw(st.sampled_from(["1", "3"]))
    s["order"] = order
    if m == n and s["symm"] == 0 and draw(st.integers(0, 2)) == 0:
        s["init_prec"] = draw(st.sampled_from(["s", "d", "c", "z"]))      # also through the public entry point p?gstrf_init
    case = {"set": s, "entries": ent, "family": fam}
    if order == "user": case["pc"] = [int(x) for x in rng.permutation(n)]
    if not ent: case["entries"] = []
    return case


def strategy(tier):
    return c10_case(60 if tier == "quick" else 120)


def nontrivial(case, v):
    return v.get("f", {}).get("etree_nontrivial", 0) >= 1


def classify(case, v):
    s = case["set"]
    labs = ["family=" + case["family"], "order=" + s["order"], "symm=%d" % s["symm"], "shape=" + ("square" if s["m"] == s["n"] else "tall"),
            "n>100" if s["n"] > 100 else "n<=100", "verdict=" + v.get("v", "?")]
    if s.get("init_prec"): labs.append("via_p%sgstrf_init" % s["init_prec"])
    if v.get("v") == "fail": labs.append("sig=" + v.get("sig", ""))
    return labs


def _enum_job(args):
    (n, lo, hi, symm, variant) = args
    r = core.Runner(variant); r.start()
    text = core.render({"set": {"prop": ID, "mode": "enum", "n": n, "lo": lo, "hi": hi, "symm": symm, "timeout_ms": 600000}})
    v = r.run(text); r.close()
    return (text, v)


def extra_phase(tier, seed):
    """bounded-exhaustive enumeration of all 0/1 patterns of order <= 3 (quick) / <= 4 (thorough)"""
    jobs = []
    for n in (1, 2, 3):
        for symm in (0, 1): jobs.append((n, 0, 1 << (n * n), symm, "asan"))
    if tier == "thorough":
        step = 1 << 12
        for symm in (0, 1):
            for lo in range(0, 1 << 16, step): jobs.append((4, lo, lo + step, symm, "asan"))
    else:
        rng = np.random.default_rng(seed)
        for symm in (0, 1):
            lo = int(rng.integers(0, (1 << 16) - 2048)); jobs.append((4, lo, lo + 2048, symm, "asan"))
    with mp.get_context("fork").Pool(14) as pool:
        res = pool.map(_enum_job, jobs, chunksize=1)
    out = {"violations": [], "evaluations": 0, "distinct_nontrivial": 0, "exhaustive_orders": [1, 2, 3] + ([4] if tier == "thorough" else []), "enum_exhaustive": tier == "thorough"}
    for (text, v) in res:
        f = v.get("f", {})
        out["evaluations"] += int(f.get("enum_cases", 0)); out["distinct_nontrivial"] += int(f.get("enum_nontrivial", 0))
        if core.is_failure(v) or v.get("v") not in ("pass",):
            os.makedirs(os.path.join(core.VERIF, "replays", "found"), exist_ok=True)
            path = os.path.join(core.VERIF, "replays", "found", "%s_enum_%s.case" % (ID, core.case_hash(text)))
            open(path, "w").write(text); out["violations"].append((path, v))
    return out
