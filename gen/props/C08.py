"""C08 — re-factorization and factor reuse stay correct over any call history"""
from props.hist import hist_case, hist_classes

ID = "C08"
LEVEL = "exploration"
RULE = ("cases = generated operation lists (length 2..8 quick / ..20 thorough) over {FIRST, REFACT(usepr yes/no; new values: scaled, sign-flipped, "
        "re-drawn, old pivots made tiny 'pivbreak', old pivots enlarged 'pivkeep'), SOLVE(trans N/T/C, new B) with the existing factors, "
        "DESTROY+FIRST again, one-shot simple-driver calls} on one sparsity pattern, thread count / threshold / schedule varying between "
        "calls, following EXAMPLE/pdrepeat.c (p?gstrf_init refact=YES + p?gstrf + ?gstrs); the composite strategy tracks the model state so "
        "every operation is applicable; oracle after every step = C09 well-formedness, reconstruction bound and residual bound for the VALUES "
        "CURRENT AT THAT CALL, pivot threshold; usepr=YES: reference elimination with the old row order in extended precision -> perm_r "
        "returned unchanged when every old pivot passes with margin, changed when one clearly fails; SOLVE leaves A, L, U and both "
        "permutations bit-identical. non-trivial = history has a REFACT after the values changed and a later SOLVE, or a usepr step whose "
        "pivots partly fail; distinct = case text")
ASSUMPTIONS = ["values stay strictly dominant except for pivbreak steps; a step that turns numerically singular is only checked for consistency",
               "the expert-driver FACTORED protocol is covered by C07's two-step histories"]
BUDGET = {
    "quick": {"examples": 12000, "workers": 14, "time_budget": 90, "variants": ["asan"]},
    "thorough": {"examples": 150000, "workers": 14, "time_budget": 1300, "variants": ["asan", "vendor", "long"], "variant_share": {"asan": 0.65, "vendor": 0.2, "long": 0.15}},
}


def strategy(tier):
    return hist_case(nmax=30 if tier == "quick" else 80, maxlen=8 if tier == "quick" else 20, user_ws=True, allow_tune=True)


def nontrivial(case, v):
    ops = case["ops"]; f = v.get("f", {})
    r = [i for i, o in enumerate(ops) if o.startswith("REFACT")]
    s = [i for i, o in enumerate(ops) if o.startswith("SOLVE")]
    return (bool(r) and bool(s) and max(s) > min(r)) or f.get("usepr_fallback", 0) > 0


classify = hist_classes
