"""C07 — expert driver solves the original system for every trans/storage/equil/fact option"""
from hypothesis import strategies as st
from props.common import expert_case, expert_classes

ID = "C07"
LEVEL = "exploration"
RULE = ("cases = nonsingular matrices (sparse recipes with dominant/generic values, dense matrices with prescribed singular values, arrowheads, "
        "rows/columns rescaled by 2^±12 and non-powers of two to force each equed outcome) x trans {N,T,C} x storage {NC,NR} x fact "
        "{DOFACT, EQUILIBRATE, FACTORED (generated as a two-step history: factor, then solve a new B with the supplied factors)} x s/d/c/z x "
        "nrhs 0..3 x ldb/ldx padding x nprocs 1..4 x schedules; oracle = info in {0,n+1}; componentwise backward error of the returned X "
        "against the ORIGINAL unscaled op(A)X=B <= 40(n+1)eps when cond*growth*n*eps <= 1e-3 (reference inverse in extended precision); "
        "A_out/B_out equal the documented scaling of the inputs by R/C as selected by equed and the effective transpose; NOEQUIL => bit-identical; "
        "FACTORED leaves A, L, U, perms untouched; rcond/growth/berr/ferr assertions of C12/C13 ride along. "
        "non-trivial = equed != NOEQUIL or trans != N or row-wise storage or FACTORED; distinct = case text")
ASSUMPTIONS = ["for cond*growth*n*eps > 1e-3 only finiteness, the scaling rule and info are asserted (refinement need not contract)",
               "complex error constants use 8*eps"]
BUDGET = {
    "quick": {"examples": 14000, "workers": 14, "time_budget": 90, "variants": ["asan"]},
    "thorough": {"examples": 200000, "workers": 14, "time_budget": 1300, "variants": ["asan", "vendor"], "variant_share": {"asan": 0.75, "vendor": 0.25}},
}


def strategy(tier):
    return expert_case(nmax=30 if tier == "quick" else 80)


def nontrivial(case, v):
    s = case["set"]; f = v.get("f", {})
    return f.get("info", -1) in (0, s["n"] + 1) and (f.get("equed", 0) != 0 or s["trans"] != "N" or s["stype"] == "NR" or s["fact"] == "FACTORED")


classify = expert_classes
