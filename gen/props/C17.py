"""C17 — no resource leaks: a call gives back everything except what it returns"""
from hypothesis import strategies as st
from props.hist import hist_case, hist_classes

ID = "C17"
LEVEL = "exploration"
RULE = ("cases = the call histories of C08 extended with singular steps (a column zeroed before a refactorization), one-shot driver calls and "
        "independent systems in other precisions; each history is executed, the caller-visible objects are destroyed with the documented "
        "routines (pxgstrf_finalize, Destroy_SuperNode_SCP, Destroy_CompCol_NCP, StatFree), and the whole history is repeated twice more; "
        "oracle = live-set of an interposed allocator (ld --wrap malloc/calloc/realloc/free, every library allocation recorded with its call "
        "chain) is empty after every repetition, /proc/self/task and /proc/self/fd counts unchanged. plus expert-driver calls over every fact (incl. the FACTORED two-step history) / trans / NC,NR / nrhs (incl. 0) combination with the same leak oracle, plus simple-driver calls in which one allocation request (or it and all later ones) fails inside the storage set-up of p?gstrf and the call returns info > n; non-trivial = history contains a "
        "non-success return or a refactorization; distinct = case text")
ASSUMPTIONS = ["allocations made by the library while the harness is inside a library call are attributed to the library (flag set around calls)"]
BUDGET = {
    "quick": {"examples": 9000, "workers": 14, "time_budget": 90, "variants": ["asan"]},
    "thorough": {"examples": 100000, "workers": 14, "time_budget": 1300, "variants": ["asan", "long"], "variant_share": {"asan": 0.8, "long": 0.2}},
}


def _expert(c):
    c["set"]["prop"] = ID; c["set"]["mode"] = "expert"; c["ops"] = []
    return c


@st.composite
def oom_case(draw):
    """simple-driver call with one allocation request made to fail (and, separately, that request and all later ones); only failures
    inside the storage set-up of p?gstrf are judged here (nothing is handed back, so nothing may stay allocated); what else can
    go wrong after a failed request is C14's subject"""
    from props.common import factor_case
    case = draw(factor_case(nmin=2, nmax=14, pmax=3, with_rhs=True, valdists=("dominant",), small_explicit_share=0.0, modes=("controlled",), stypes=("NC", "NC", "NR")))
    s = case["set"]; s["api"] = "gssv"; s["prop"] = "C14"; s["mode"] = "oom"; s["leakcheck"] = 1
    if s.get("nrhs", 1) == 0: s["nrhs"] = 1
    s["ldb"] = s["n"]; s["ldx"] = s["n"]; s["timeout_ms"] = 12000
    case["fracs"] = draw(st.lists(st.floats(0.0, 1.0, width=16), min_size=6, max_size=6))
    case["ops"] = []
    return case


def evaluate(case, runner):
    import core
    if case["set"].get("mode") != "oom":
        t = core.render(case); return [(t, runner.run(t))]
    def run(extra):
        c = dict(case); c["set"] = dict(case["set"]); c["set"].update(extra)
        t = core.render(c); return (t, runner.run(t))
    out = [run({})]
    v0 = out[0][1]
    if v0.get("v") != "pass": return out if str(v0.get("sig", "")).startswith("C17:") else []
    K = int(v0.get("f", {}).get("allocs", 0))
    ks = sorted(set(max(1, min(K, int(1 + f * K))) for f in case["fracs"])) if K > 0 else []
    for k in ks:
        for key in ("malloc_fail_only", "malloc_fail_from"):
            t, v = run({key: k})
            # crashes, hangs and wrong returns behind a failed request are C14's findings, not judged here
            if v.get("v") == "pass" or str(v.get("sig", "")).startswith("C17:"):
                out.append((t, v))
    return out


def strategy(tier):
    from props.common import expert_case
    h = hist_case(nmax=24 if tier == "quick" else 60, maxlen=7 if tier == "quick" else 16, allow_other=True, allow_singular=True, allow_tune=True, allow_query=True)
    # one-shot and two-step (FACTORED) expert-driver calls over all fact / trans / storage / nrhs (incl. 0) combinations
    x = expert_case(nmax=20 if tier == "quick" else 50, transes=("N", "T")).map(_expert)
    return st.one_of(h, h, h, x, oom_case())


def nontrivial(case, v):
    f = v.get("f", {})
    if case["set"].get("mode") == "oom": return f.get("oom_leak_checked", 0) == 1
    if case["set"].get("mode") == "expert":
        s = case["set"]; return s.get("fact") == "FACTORED" or s.get("stype") == "NR" or s.get("nrhs", 1) == 0
    return f.get("singular_steps", 0) > 0 or any(o.startswith("REFACT") for o in case["ops"])


def classify(case, v):
    if case["set"].get("mode") == "oom":
        f = v.get("f", {})
        return ["mode=oom", "oom_return=%d" % int(f.get("oom_return", 0)), "oom_leak_checked=%d" % int(f.get("oom_leak_checked", 0)), "verdict=" + v.get("v", "?")]
    if case["set"].get("mode") == "expert":
        from props.common import expert_classes
        return ["mode=expert"] + expert_classes(case, v)
    return hist_classes(case, v)
