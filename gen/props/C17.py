"""C17 — no resource leaks: a call gives back everything except what it returns"""
from hypothesis import strategies as st
from props.hist import hist_case, hist_classes

ID = "C17"
LEVEL = "exploration"
RULE = ("cases = the call histories of C08 extended with singular steps (a column zeroed before a refactorization), one-shot driver calls and "
        "independent systems in other precisions; each history is executed, the caller-visible objects are destroyed with the documented "
        "routines (pxgstrf_finalize, Destroy_SuperNode_SCP, Destroy_CompCol_NCP, StatFree), and the whole history is repeated twice more; "
        "oracle = live-set of an interposed allocator (ld --wrap malloc/calloc/realloc/free, every library allocation recorded with its call "
        "chain) is empty after every repetition, /proc/self/task and /proc/self/fd counts unchanged. plus expert-driver calls over every fact (incl. the FACTORED two-step history) / trans / NC,NR / nrhs (incl. 0) combination with the same leak oracle; non-trivial = history contains a "
        "non-success return or a refactorization; distinct = case text")
ASSUMPTIONS = ["allocations made by the library while the harness is inside a library call are attributed to the library (flag set around calls)"]
BUDGET = {
    "quick": {"examples": 9000, "workers": 14, "time_budget": 90, "variants": ["asan"]},
    "thorough": {"examples": 100000, "workers": 14, "time_budget": 1300, "variants": ["asan", "long"], "variant_share": {"asan": 0.8, "long": 0.2}},
}


def _expert(c):
    c["set"]["prop"] = ID; c["set"]["mode"] = "expert"; c["ops"] = []
    return c


def strategy(tier):
    from props.common import expert_case
    h = hist_case(nmax=24 if tier == "quick" else 60, maxlen=7 if tier == "quick" else 16, allow_other=True, allow_singular=True, allow_tune=True, allow_query=True)
    # one-shot and two-step (FACTORED) expert-driver calls over all fact / trans / storage / nrhs (incl. 0) combinations
    x = expert_case(nmax=20 if tier == "quick" else 50, transes=("N", "T")).map(_expert)
    return st.one_of(h, h, h, x)


def nontrivial(case, v):
    f = v.get("f", {})
    if case["set"].get("mode") == "expert":
        s = case["set"]; return s.get("fact") == "FACTORED" or s.get("stype") == "NR" or s.get("nrhs", 1) == 0
    return f.get("singular_steps", 0) > 0 or any(o.startswith("REFACT") for o in case["ops"])


def classify(case, v):
    if case["set"].get("mode") == "expert":
        from props.common import expert_classes
        return ["mode=expert"] + expert_classes(case, v)
    return hist_classes(case, v)
