"""C01 — simple driver solves A*X = B for every nonsingular input, nprocs and schedule"""
from hypothesis import strategies as st
from props.common import factor_case, par_nontrivial, std_classes

ID = "C01"
LEVEL = "exploration"
RULE = ("cases = (matrix family recipe or explicit small entry list) x precision s/d/c/z x NC/NR x ordering 0..3/user x tunables "
        "(panel, relax, maxsuper, 2-D cut-offs) x nprocs x schedule (controlled token scheduler with seeded uniform/sticky/PCT "
        "strategy, or free-running with injected delays) x nrhs/ldb; oracle = extended-precision residual against "
        "4*gamma(3n+2)*(Pr^T|L||U|Pc^T)|X| with the returned factors, A bit-identical, B padding untouched, returned L/U well-formed. "
        "non-trivial = nprocs>=2 and >=2 distinct threads took panels and >=3 supernodes and U has an off-diagonal entry; "
        "distinct = distinct case text (pattern, values, tunables, P, schedule seed)")
ASSUMPTIONS = ["relax <= maxsuper (implicit precondition, DESIGN §3)", "values within 2^±20 so that no over/underflow occurs",
               "controlled schedules separate threads only at hook points; free mode samples the rest probabilistically"]
BUDGET = {
    "quick": {"examples": 28000, "workers": 14, "time_budget": 75, "variants": ["asan", "omp", "long", "nohook"], "variant_share": {"asan": 0.58, "omp": 0.14, "long": 0.14, "nohook": 0.14}},
    "thorough": {"examples": 42000, "workers": 14, "time_budget": 1200, "variants": ["asan", "vendor", "omp", "long", "nohook"], "variant_share": {"asan": 0.4, "vendor": 0.15, "omp": 0.15, "long": 0.15, "nohook": 0.15}},
}


def strategy(tier):
    if tier == "quick":
        return factor_case(nmax=40, pmax=4)
    return st.one_of(factor_case(nmax=60, pmax=8), factor_case(nmin=40, nmax=300, pmax=8, small_explicit_share=0.0))


nontrivial = par_nontrivial
classify = std_classes
