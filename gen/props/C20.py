"""C20 — file readers return exactly the matrix a well-formed file encodes"""
import numpy as np
from hypothesis import strategies as st
from props.common import PRECS

ID = "C20"
LEVEL = "exploration"
RULE = ("cases = random m x n sparse matrices in four precisions written by an independent Python writer as well-formed Harwell-Boeing, "
        "Rutherford-Boeing and ?readmt column-list files: every generated edit descriptor (kIw), (kEw.d), (kDw.d), (kFw.d), (1PkEw.d), upper "
        "or lower case, line width <= 80, fields that touch the last column, multi-line sections, optional right-hand-side header line and "
        "data (HB), pattern-only files, complex values as (re,im) pairs, values either short dyadic numbers or full-mantissa numbers printed with 18 significant "
        "digits (the expected value is what the printed field denotes); symmetric/Hermitian/skew MXTYPEs stored as a triangle (kept as a listed finding: the readers do not "
        "expand). The file is fed through stdin of the forked child. oracle = round-trip: dimensions, nnz, column pointers and the entries "
        "(row, value) column by column equal the generated matrix, values bit-equal to strtod of the printed field (rounded to float for "
        "single). non-trivial = some section spans >= 2 lines and (a field touches column 80, or D exponents, or an RHS header line); "
        "distinct = case text")
ASSUMPTIONS = ["header lines are padded to their full fixed width (the readers slice them with %72c/%14c/%16c/%20c)",
               "edit descriptors without embedded commas"]
BUDGET = {
    "quick": {"examples": 20000, "workers": 14, "time_budget": 80, "variants": ["asan"]},
    "thorough": {"examples": 250000, "workers": 14, "time_budget": 1000, "variants": ["asan"]},
}


def fmt_int_section(vals, k, w):
    lines = []
    for s in range(0, len(vals), k):
        lines.append("".join(str(v).rjust(w) for v in vals[s:s + k]))
    return lines


def fmt_real(v, kind, w, d):
    if kind == "F":
        t = "%.*f" % (d, v)
    else:
        t = "%.*E" % (d, v)
        if kind == "D": t = t.replace("E", "D")
    return t.rjust(w)


def fmt_real_section(vals, k, kind, w, d, lower):
    lines = []
    for s in range(0, len(vals), k):
        t = "".join(fmt_real(v, kind, w, d) for v in vals[s:s + k])
        lines.append(t.lower() if lower else t)
    return lines


@st.composite
def c20_case(draw, nmax=20):
    prec = draw(st.sampled_from(PRECS)); cplx = prec in "cz"; single = prec in "sc"
    fmt = draw(st.sampled_from(["hb", "hb", "rb", "rb", "mt"]))
    sym = draw(st.integers(0, 9)) == 0 and fmt != "mt"
    n = draw(st.integers(1, nmax)); m = n if (sym or draw(st.booleans())) else draw(st.integers(1, nmax))
    seed = draw(st.integers(0, 2 ** 32 - 1)); rng = np.random.default_rng(seed)
    dens = draw(st.sampled_from([0.1, 0.3, 0.7]))
    cols = []
    q = draw(st.sampled_from([0, 2, 4]))
    # "fine" values: full-mantissa numbers printed with 18 significant digits (E/D descriptors only), so that a reader that keeps
    # fewer bits than the precision it returns is seen; the expected value is what the printed field itself denotes
    fine = draw(st.booleans())
    for j in range(n):
        rows = [i for i in range(m) if rng.random() < dens and (not sym or i >= j)]
        if draw(st.booleans()): rng.shuffle(rows)
        ents = []
        for i in rows:
            a = float(rng.integers(-4000, 4001)) / (2 ** q); b = float(rng.integers(-4000, 4001)) / (2 ** q) if cplx else 0.0
            if fine:
                a = float(rng.standard_normal() * 2.0 ** int(rng.integers(-20, 21))); b = float(rng.standard_normal() * 2.0 ** int(rng.integers(-20, 21))) if cplx else 0.0
            ents.append((int(i), a, b))
        cols.append(ents)
    nnz = sum(len(c) for c in cols)
    pattern_only = (not sym) and fmt != "mt" and draw(st.integers(0, 7)) == 0
    lower = draw(st.booleans())
    # ---- descriptors
    maxptr = nnz + 1
    pw = draw(st.integers(len(str(maxptr)) + 1, 14)); pk = draw(st.integers(1, max(1, 80 // pw)))
    iw = draw(st.integers(len(str(max(m, 1))) + 1, 10)); ik = draw(st.integers(1, max(1, 80 // iw)))
    kind = draw(st.sampled_from(["E", "E", "D", "F", "PE"]))
    if fine and kind == "F": kind = "E"
    d = draw(st.integers(8, 17)) if kind != "F" else draw(st.integers(4, 8))
    if fine: d = 17
    vw = draw(st.integers(d + 9, min(40, d + 14))) if kind != "F" else draw(st.integers(d + 8, d + 14))
    vk = draw(st.integers(1, max(1, 80 // vw)))
    touch80 = draw(st.booleans())
    if touch80: vk = max(1, 80 // vw); vw2 = 80 // vk; vw = max(vw, vw2) if vk * max(vw, vw2) <= 80 else vw
    kletter = {"E": "E", "D": "D", "F": "F", "PE": "E"}[kind]
    ptrfmt = "(%dI%d)" % (pk, pw); indfmt = "(%dI%d)" % (ik, iw)
    valfmt = ("(1P%d%s%d.%d)" if kind == "PE" else "(%d%s%d.%d)") % (vk, kletter, vw, d)
    if lower: ptrfmt, indfmt, valfmt = ptrfmt.lower(), indfmt.lower(), valfmt.lower()
    rk = "D" if kind == "D" else ("F" if kind == "F" else "E")
    # ---- sections
    ptr = [1]
    for c in cols: ptr.append(ptr[-1] + len(c))
    ind = [i + 1 for c in cols for (i, a, b) in c]
    vals = []
    for c in cols:
        for (i, a, b) in c:
            vals.append(a)
            if cplx: vals.append(b)
    plines = fmt_int_section(ptr, pk, pw); ilines = fmt_int_section(ind, ik, iw)
    vlines = [] if pattern_only else fmt_real_section(vals, vk, rk, vw, d, lower)
    mxtype = ("C" if cplx else "R") + ("S" if sym else "U") + "A"
    if sym and cplx and draw(st.booleans()): mxtype = "CHA"
    if pattern_only: mxtype = "PUA"
    rhs = fmt == "hb" and draw(st.booleans())
    rhslines = fmt_real_section([1.0] * m, vk, rk, vw, d, lower) if rhs else []
    def i14(v): return str(v).rjust(14)
    body = []
    if fmt == "hb":
        body.append(("generated %d x %d" % (m, n)).ljust(72) + "KEY00001")
        tot = len(plines) + len(ilines) + len(vlines) + len(rhslines)
        body.append(i14(tot) + i14(len(plines)) + i14(len(ilines)) + i14(len(vlines)) + i14(len(rhslines)))
        body.append(mxtype + " " * 11 + i14(m) + i14(n) + i14(nnz) + i14(0))
        body.append(ptrfmt.ljust(16) + indfmt.ljust(16) + valfmt.ljust(20) + (valfmt if rhs else "").ljust(20))
        if rhs: body.append("F  " + " " * 11 + i14(1) + i14(0))
        body += plines + ilines + vlines + rhslines
    elif fmt == "rb":
        body.append(("generated %d x %d" % (m, n)).ljust(72) + "KEY00001")
        tot = len(plines) + len(ilines) + len(vlines)
        body.append(i14(tot) + i14(len(plines)) + i14(len(ilines)) + i14(len(vlines)))
        body.append(mxtype.lower() if draw(st.booleans()) else mxtype)
        body[-1] = body[-1] + " " * 11 + i14(m) + i14(n) + i14(nnz) + i14(0)
        body.append(ptrfmt.ljust(16) + indfmt.ljust(16) + valfmt.ljust(20))
        body += plines + ilines + vlines
    else:
        body.append("generated column list %d x %d" % (m, n))
        body.append("%d %d %d" % (m, n, nnz))
        for c in cols:
            body.append("%d" % len(c))
            for (i, a, b) in c:
                t = "%d %s" % (i + 1, fmt_real(a, "E", 0, 17).strip())
                if cplx: t += " %s" % fmt_real(b, "E", 0, 17).strip()
                body.append(t)
        pattern_only = False
    text = "\n".join(body) + "\n"
    # ---- expected entries (file order); symmetric files: the expanded matrix is what a reader must return
    exp = []
    for j, c in enumerate(cols):
        for (i, a, b) in c:
            if fine:      # the value a reader must return is the one the printed field denotes
                a = float(fmt_real(a, "E", 0, 17 if fmt == "mt" else d)); b = float(fmt_real(b, "E", 0, 17 if fmt == "mt" else d)) if cplx else 0.0
            exp.append((i, j, float(np.float32(a)) if single else a, (float(np.float32(b)) if single else b) if cplx else 0.0))
    if sym:
        full = {}
        for (i, j, a, b) in exp:
            full[(i, j)] = (a, b)
            if i != j: full[(j, i)] = (a, -b if mxtype == "CHA" else b)
        exp = [(i, j, a, b) for ((i, j), (a, b)) in sorted(full.items(), key=lambda t: (t[0][1], t[0][0]))]
    s = {"prec": prec, "format": fmt, "m": m, "n": n, "mxtype": mxtype, "pattern_only": 1 if pattern_only else 0}
    multi = max(len(plines), len(ilines), len(vlines)) >= 2
    return {"set": s, "entries": exp, "blob": text.encode(), "fmt": fmt, "kind": kind, "rhs": rhs, "sym": sym, "multi": multi,
            "touch80": (vk * vw == 80 or pk * pw == 80 or ik * iw == 80), "lower": lower, "fine": fine}


def strategy(tier):
    return c20_case(20 if tier == "quick" else 60)


def nontrivial(case, v):
    return case["fmt"] != "mt" and case["multi"] and (case["touch80"] or case["kind"] == "D" or case["rhs"])


def classify(case, v):
    labs = ["fmt=" + case["fmt"], "prec=" + case["set"]["prec"], "kind=" + case["kind"], "mxtype=" + case["set"]["mxtype"], "verdict=" + v.get("v", "?")]
    if case["rhs"]: labs.append("rhs_header")
    if case["touch80"]: labs.append("field_touches_col80")
    if case["lower"]: labs.append("lowercase")
    if case["multi"]: labs.append("multi_line_section")
    if case.get("fine"): labs.append("full_mantissa_values")
    if v.get("v") == "fail": labs.append("sig=" + v.get("sig", ""))
    return labs
