"""C19 — sparse kernels and format utilities agree with their dense definitions"""
import numpy as np
from hypothesis import strategies as st
import matrices as mx
from props.common import PRECS, factor_case

ID = "C19"
LEVEL = "exploration"
LIBEXIT_IS_FAILURE = True
RULE = ("cases = m x n CSC matrices (rectangular too) x op in {N,T,C} x alpha, beta in {0, 1, -1, generic} x incx, incy in {±1,±2,±3} x "
        "four precisions for sp_?gemv; sp_?gemm with padded ldb/ldc and 1..3 columns; sp_?trsv for {L,U} x {N,T,C} on the L/U of a fresh "
        "multi-supernode factorization (tunables forcing supernodes of >=2 columns next to singletons); ?langs for M/1/I/F; "
        "?CompRow_to_CompCol and ?Copy_CompCol_Matrix; oracle = dense long-double evaluation: |y - y_ref| <= 2*gamma(k+3)(|alpha||A||x| + "
        "|beta||y0|), |b - op(T)x| <= 2*gamma(n+1)|T||x|, norms exact within (m+n+2) eps, conversions equal as sets of (i,j,value), "
        "inputs untouched, elements between strides untouched. non-trivial = non-unit stride, op != N, special alpha/beta, or triangular "
        "solves with a supernode of >=2 columns; distinct = case text")
ASSUMPTIONS = ["an explicit 'Not implemented.' abort is classified through the library-exit hook and matched against the listed findings D8"]
BUDGET = {
    "quick": {"examples": 20000, "workers": 14, "time_budget": 80, "variants": ["asan"]},
    "thorough": {"examples": 250000, "workers": 14, "time_budget": 1000, "variants": ["asan", "vendor"], "variant_share": {"asan": 0.7, "vendor": 0.3}},
}
SPECIAL = [0.0, 1.0, -1.0]


@st.composite
def c19_case(draw, nmax=24):
    mode = draw(st.sampled_from(["gemv", "gemv", "gemv", "gemm", "trsv", "trsv", "langs", "convert"]))
    if mode == "trsv":
        case = draw(factor_case(nmin=2, nmax=nmax + 10, pmax=2, with_rhs=False, stypes=("NC",), valdists=("dominant", "generic"), small_explicit_share=0.05))
        s = case["set"]; s["mode"] = "trsv"; s["via"] = "gstrf"; s["u"] = 1.0
        s["relax"] = draw(st.sampled_from([1, 2, 3, 4])); s["maxsuper"] = max(s["relax"], draw(st.sampled_from([2, 3, 4, 8])))
        case["mode"] = mode
        return case
    prec = draw(st.sampled_from(PRECS)); cplx = prec in "cz"; single = prec in "sc"
    m = draw(st.integers(1, nmax)); n = m if draw(st.booleans()) else draw(st.integers(1, nmax))
    seed = draw(st.integers(0, 2 ** 32 - 1)); rng = np.random.default_rng(seed)
    dens = draw(st.sampled_from([0.1, 0.3, 0.8]))
    ent = []
    for j in range(n):
        for i in range(m):
            if rng.random() < dens:
                a = float(rng.integers(-1000, 1001)) / 256.0; b = float(rng.integers(-1000, 1001)) / 256.0 if cplx else 0.0
                ent.append((i, j, a, b))
    s = {"prec": prec, "m": m, "n": n, "stype": "NC", "mode": mode, "vseed": draw(st.integers(1, 10 ** 6))}
    if mode in ("gemv", "gemm"):
        s["trans"] = draw(st.sampled_from(["N", "T", "C"]))
        def scal():
            return draw(st.sampled_from(SPECIAL + [float(draw(st.integers(-300, 300))) / 64.0]))
        s["alpha_re"] = scal(); s["beta_re"] = scal()
        if cplx:
            s["alpha_im"] = draw(st.sampled_from([0.0, 0.0, 0.5, -1.25])); s["beta_im"] = draw(st.sampled_from([0.0, 0.0, 1.0, -0.75]))
        if mode == "gemv":
            s["incx"] = draw(st.sampled_from([1, 1, 1, -1, 2, -2, 3, -3])); s["incy"] = draw(st.sampled_from([1, 1, 1, -1, 2, -2, 3, -3]))
        else:
            s["ncolb"] = draw(st.integers(1, 3)); s["padb"] = draw(st.sampled_from([0, 0, 2])); s["padc"] = draw(st.sampled_from([0, 0, 1]))
    elif mode == "langs":
        s["norm"] = draw(st.sampled_from(["M", "1", "O", "I", "F", "E"]))
    elif mode == "convert":
        s["stype"] = draw(st.sampled_from(["NC", "NR"]))
    return {"set": s, "entries": ent, "family": "dense-ish", "mode": mode}


def strategy(tier):
    return c19_case(24 if tier == "quick" else 60)


def nontrivial(case, v):
    s = case["set"]; f = v.get("f", {})
    if case["mode"] == "trsv": return f.get("maxsup", 0) >= 2
    if case["mode"] in ("gemv", "gemm"):
        return s.get("incx", 1) != 1 or s.get("incy", 1) != 1 or s["trans"] != "N" or s["alpha_re"] in SPECIAL or s["beta_re"] in SPECIAL
    return True


def classify(case, v):
    s = case["set"]
    labs = ["mode=" + case["mode"], "prec=" + s["prec"], "verdict=" + v.get("v", "?")]
    if case["mode"] in ("gemv", "gemm"):
        labs += ["trans=" + s["trans"], "alpha=" + ("special" if s["alpha_re"] in SPECIAL else "generic"), "beta=" + ("special" if s["beta_re"] in SPECIAL else "generic")]
        if case["mode"] == "gemv": labs += ["incx=%d" % s["incx"], "incy=%d" % s["incy"]]
    if case["mode"] == "langs": labs.append("norm=" + s["norm"])
    if v.get("v") in ("fail", "libexit"): labs.append("sig=" + v.get("sig", ""))
    return labs
