"""C02 — Pr*A*Pc = L*U with bounded multipliers and diagonal preference"""
from hypothesis import strategies as st
from props.common import factor_case, std_classes
from props.hist import hist_case

ID = "C02"
LEVEL = "exploration"
RULE = ("cases = matrix recipe/explicit list x s/d/c/z x ordering x tunables (panel 1..8, relax 1..6, maxsuper 1..40, 2-D cut-offs "
        "rowblk/colblk down to 1) x threshold u in {0,1e-3,0.1,0.5,1} U (0,1] x path (p?gstrf_init+p?gstrf, or p?gssv) x nprocs x schedule; "
        "oracle = dense extended-precision reconstruction |Pr*A*Pc-L*U| <= 2*gamma(n+1)|L||U|, multipliers <= 1/u (sqrt2/u complex, cabs1 pivoting), "
        "pivot >= u*max and diagonal preferred when it meets the threshold (band of 8 eps not asserted), C09 well-formedness. "
        "non-trivial = a supernode of >=3 columns, or an off-diagonal pivot, or (nprocs>=2 and >=2 threads took panels); distinct = case text. "
        "Plus the bounded-exhaustive space: every 0/1 pattern of order <=3 (quick) / <=4 (thorough) with a transversal x every row order, "
        "forced with usepr=YES,u=0; admissible orders must be honoured exactly.")
ASSUMPTIONS = ["relax <= maxsuper", "multiplier bound for complex is sqrt(2)/u because the library pivots on |re|+|im|",
               "near-threshold pivot decisions (within 8 eps) are not asserted"]
BUDGET = {
    "quick": {"examples": 28000, "workers": 14, "time_budget": 80, "variants": ["asan"]},
    "thorough": {"examples": 300000, "workers": 14, "time_budget": 1300, "variants": ["asan", "vendor", "omp", "long", "nohook"], "variant_share": {"asan": 0.5, "vendor": 0.2, "omp": 0.1, "long": 0.1, "nohook": 0.1}},
}


@st.composite
def c02_case(draw, nmax=40, pmax=4, nmin=1, small=0.15):
    case = draw(factor_case(nmin=nmin, nmax=nmax, pmax=pmax, with_rhs=False, stypes=("NC", "NC", "NC", "NR"), small_explicit_share=small,
                            valdists=("generic", "dominant", "wide", "int")))
    s = case["set"]
    via = draw(st.sampled_from(["gstrf", "gstrf", "gssv"]))
    if s["stype"] == "NR":
        via = "gssv"
    s["via"] = via
    if via == "gstrf":
        s["u"] = draw(st.sampled_from([0.0, 1e-3, 0.1, 0.5, 1.0, 1.0, draw(st.floats(0.015625, 1.0, allow_nan=False, width=32))]))
    else:
        s["u"] = 1.0
    return case


def _as_c08(c):
    c["set"]["prop"] = "C08"; c["set"]["via"] = "history"; c["set"].setdefault("u", 1.0); c["set"].setdefault("P", 1); return c


def strategy(tier):
    # the threshold / multiplier clauses also hold when a caller-supplied row order is reused (usepr=YES): those steps come
    # from the history generator (first factorization, then refactorization of new values with the old perm_r)
    if tier == "quick":
        return st.one_of(c02_case(), c02_case(), c02_case(), hist_case(nmax=30, maxlen=4).map(_as_c08))
    return st.one_of(c02_case(nmax=60, pmax=8), c02_case(nmin=40, nmax=250, pmax=8, small=0.0), hist_case(nmax=60, maxlen=8).map(_as_c08))


def nontrivial(case, v):
    f = v.get("f", {})
    if case["set"].get("via") == "history":
        return f.get("usepr_kept", 0) + f.get("usepr_fallback", 0) > 0
    return f.get("info", 1) == 0 and (f.get("maxsup", 0) >= 3 or f.get("offdiag_pivots", 0) > 0 or (case["set"].get("P", 1) >= 2 and f.get("thr_panels", 0) >= 2))


def classify(case, v):
    if case["set"].get("via") == "history":
        from props.hist import hist_classes
        return ["via=history"] + hist_classes(case, v)
    labs = std_classes(case, v)
    labs.append("via=" + case["set"]["via"]); labs.append("u=%g" % case["set"]["u"] if case["set"]["u"] in (0.0, 1e-3, 0.1, 0.5, 1.0) else "u=other")
    if v.get("f", {}).get("pivot_ambiguous", 0) > 0: labs.append("pivot_in_ambiguity_band")
    return labs


def _enum_job(args):
    import core
    (n, lo, hi, P, prec, variant) = args
    r = core.Runner(variant); r.start()
    text = core.render({"set": {"prop": ID, "mode": "forced_enum", "n": n, "lo": lo, "hi": hi, "P": P, "prec": prec, "panel": 1 + (lo % 2), "relax": 1 + (lo % 3), "maxsuper": 4,
                                "rowblk": 1, "colblk": 1, "timeout_ms": 900000}})
    v = r.run(text); r.close()
    return (text, v)


def extra_phase(tier, seed):
    """bounded-exhaustive: every 0/1 pattern of order <=3 (quick; a seeded slice of order 4) / <=4 (thorough) that has a transversal
    x every row order forced with usepr=YES, u=0 x nprocs in {1,2}"""
    import os, multiprocessing as mp, numpy as np, core
    jobs = []
    for n in (1, 2, 3):
        for P in (1, 2):
            for prec in ("d", "z") if n == 3 else ("d",): jobs.append((n, 0, 1 << (n * n), P, prec, "asan"))
    if tier == "thorough":
        step = 1 << 11
        for lo in range(0, 1 << 16, step):
            for P in (1, 2): jobs.append((4, lo, lo + step, P, "d", "asan"))
    else:
        rng = np.random.default_rng(seed)
        for P in (1, 2):
            lo = int(rng.integers(0, (1 << 16) - 1024)); jobs.append((4, lo, lo + 1024, P, "d", "asan"))
    with mp.get_context("fork").Pool(14) as pool:
        res = pool.map(_enum_job, jobs, chunksize=1)
    out = {"violations": [], "evaluations": 0, "distinct_nontrivial": 0, "forced_orders_honoured": 0, "forced_orders_not_admissible_skipped": 0, "forced_patterns": 0,
           "exhaustive_orders": [1, 2, 3] + ([4] if tier == "thorough" else []), "enum_exhaustive": tier == "thorough"}
    for (text, v) in res:
        f = v.get("f", {})
        out["evaluations"] += int(f.get("enum_runs", 0)); out["distinct_nontrivial"] += int(f.get("enum_honoured", 0))
        out["forced_orders_honoured"] += int(f.get("enum_honoured", 0)); out["forced_orders_not_admissible_skipped"] += int(f.get("enum_fallback", 0)); out["forced_patterns"] += int(f.get("enum_patterns", 0))
        if v.get("v") != "pass":
            os.makedirs(os.path.join(core.VERIF, "replays", "found"), exist_ok=True)
            path = os.path.join(core.VERIF, "replays", "found", "%s_enum_%s.case" % (ID, core.case_hash(text)))
            open(path, "w").write(text); out["violations"].append((path, v))
    return out
