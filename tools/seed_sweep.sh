#!/bin/bash
# quick tier of every check for several VERIF_SEED values on the unchanged tree: must stay silent
cd "$(dirname "$0")/.."
[ -n "${VP_RUN_REPO:-}" ] && export VERIF_REPO=$VP_RUN_REPO
bin/setup >/dev/null 2>&1
for seed in ${SEEDS:-2 3 4 5}; do
  for p in C01 C02 C03 C04 C05 C06 C07 C08 C09 C10 C11 C12 C13 C14 C15 C16 C17 C18 C19 C20; do
    out=$(VERIF_SEED=$seed bin/check $p --tier quick 2>&1); rc=$?
    echo "seed=$seed $p rc=$rc $(echo "$out" | grep -E "evaluations=" | cut -c1-110) $(echo "$out" | grep -E "failing verdict|VIOLATION|ERROR" | head -2 | cut -c1-300 | tr '\n' '|')"
  done
done
echo SWEEPDONE
