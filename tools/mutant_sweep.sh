#!/bin/bash
# tools/mutant_sweep.sh <seeded dir>... : run the quick check of each seeded change's own property (plus IDs listed in
# <dir>/also) against the change applied to /repo; one line per (change, check).  /repo is always restored.
cd /verif
for d in "$@"; do
  id=$(basename $d); prop=${id%%_*}; also=""; [ -f $d/also ] && also=$(cat $d/also)
  r=$(tools/try_mutant.sh $d/patch.diff quick $prop $also 2>&1 | grep "^\[" | cut -c1-330)
  echo "## $id"; echo "$r"
done
