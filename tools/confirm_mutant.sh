#!/bin/bash
# tools/confirm_mutant.sh <mutant dir with patch.diff demo.sh> : confirm (a) compiles+48 tests pass with the patch, (b) demo fails with / passes without
set -u
M=$(cd "$1" && pwd)
W=/tmp/wt/confirm_$$
git -C /repo worktree add --detach $W HEAD -q || exit 9
cleanup() { git -C /repo worktree remove --force $W >/dev/null 2>&1; }
trap cleanup EXIT
cd $W
echo "== clean demo"; (cd $M && timeout 900 bash demo.sh $W >/tmp/wt/demo_clean_$$.log 2>&1); C=$?; tail -2 /tmp/wt/demo_clean_$$.log
git apply $M/patch.diff || { echo "PATCH DOES NOT APPLY"; exit 8; }
echo "== build+ctest with mutant"
cmake -G Ninja -B _build -DCMAKE_BUILD_TYPE=RelWithDebInfo -DCMAKE_C_FLAGS=-Wno-error >/dev/null && cmake --build _build >/dev/null 2>&1 || { echo "MUTANT DOES NOT BUILD"; exit 7; }
OPENBLAS_NUM_THREADS=1 ctest --test-dir _build -j8 --timeout 900 2>&1 | grep "tests passed"
echo "== mutant demo"; (cd $M && timeout 900 bash demo.sh $W >/tmp/wt/demo_mut_$$.log 2>&1); X=$?; tail -2 /tmp/wt/demo_mut_$$.log
echo "RESULT clean_exit=$C mutant_exit=$X"
rm -f /tmp/wt/demo_clean_$$.log /tmp/wt/demo_mut_$$.log
