#!/usr/bin/env python3
"""Regenerates MANIFEST.json from the property modules that exist under gen/props (claimed) and NOT_APPLICABLE below."""
import json, os, sys, importlib, subprocess
V = os.path.dirname(os.path.dirname(os.path.abspath(__file__)))
sys.path.insert(0, os.path.join(V, "gen"))
ALL = ["C%02d" % i for i in range(1, 21)]
NOT_APPLICABLE = {}   # id -> reason (properties not claimed)
TECH = {
 "C01": "property-based testing (Hypothesis) over matrices x options x schedules; extended-precision residual oracle; controlled-schedule fuzzing",
 "C02": "property-based testing: dense extended-precision reconstruction + pivot-policy oracle; bounded-exhaustive forced pivot orders",
 "C03": "schedule fuzzing with a token-passing controlled scheduler; history-invariant monitor over hook events; exhaustive scheduler model",
 "C04": "schedule fuzzing (controlled + oversubscribed free runs); exactly-once/termination monitor; exhaustive scheduler model",
 "C05": "property-based testing under ASan/UBSan with slot-bound monitor and extent-disjointness oracle; diagnosed-exit classification",
 "C06": "property-based testing over singular families; structural-rank (bipartite matching) reference oracle",
 "C07": "property-based testing over option cells; extended-precision solve of the original system; scaling-rule oracle",
 "C08": "stateful property-based testing (generated call histories) with per-step factor/solve oracles",
 "C09": "property-based testing with a structural validity predicate over returned L/U",
 "C10": "property-based testing + bounded-exhaustive patterns; reference etree/postorder oracle",
 "C11": "property-based testing; independent re-implementation of the equilibration rule in long double",
 "C12": "property-based testing; __float128 inverse reference for rcond bounds; growth recomputation",
 "C13": "property-based testing; recomputed backward error and exact-solution forward error",
 "C14": "fault enumeration: k-th allocation failure and workspace-size sweep under ASan",
 "C15": "property-based testing over argument-violation tables; checksum and heap-balance oracle",
 "C16": "property-based testing on diagonally dominant inputs in symmetric mode; perm_r==perm_c and slot monitor",
 "C17": "stateful property-based testing with an interposed allocator live-set oracle",
 "C18": "differential testing: probe call after generated prefix history vs fresh process",
 "C19": "property-based testing against dense long-double definitions of the kernels",
 "C20": "round-trip property-based testing with an independent writer of HB/RB/triplet files",
}
checks = []
for pid in ALL:
    if pid in NOT_APPLICABLE: continue
    if not os.path.exists(os.path.join(V, "gen", "props", pid + ".py")):
        NOT_APPLICABLE.setdefault(pid, "check not built yet in this session (planned: see DESIGN.md section 4)")
        continue
    mod = importlib.import_module("props." + pid)
    checks.append({
        "property_id": pid,
        "quick_cmd": "bin/check %s --tier quick" % pid,
        "thorough_cmd": "bin/check %s --tier thorough" % pid,
        "evidence_file": "evidence/%s.json" % pid,
        "replay_cmd_template": "bin/check %s --replay {path}" % pid,
        "engine": "hypothesis+runner",
        "level_claimed": {"category": getattr(mod, "LEVEL", "exploration"),
                          "text": getattr(mod, "LEVEL_TEXT", "Bounded generated-input search against an explicit oracle: " + mod.RULE[:600]),
                          "design_ref": "DESIGN.md §4 " + pid},
        "level_note": "; ".join(getattr(mod, "ASSUMPTIONS", [])) or "trusted base: the C runner's oracle code, gcc sanitizers, Hypothesis",
        "technique": TECH[pid],
    })
hooks_commits = subprocess.run(["git", "-C", "/repo", "log", "--format=%H %s"], capture_output=True, text=True).stdout.splitlines()
hook_shas = [l.split()[0] for l in hooks_commits if "verif hooks" in l]
man = {
    "version": 1,
    "setup_cmd": "bin/setup",
    "hooks": {"guard": "SLU_MT_VERIF", "enable": "bin/build compiles /repo/SRC and /repo/CBLAS with -DSLU_MT_VERIF into /verif/.build/<variant> (rebuilt whenever the sources change)",
              "baseline_off_cmd": "bin/baseline_off", "source_commits": hook_shas, "add_only": True},
    "engines": [{"name": "hypothesis+runner", "path": "gen/ + harness/", "serves_properties": [c["property_id"] for c in checks],
                 "kind_free_text": "Hypothesis (python3-vt) generates and shrinks cases; a C runner executes each case in a forked child under ASan/UBSan with an interposed allocator, a token-passing thread scheduler driven by SLU_MT_VERIF hook events, and extended-precision oracles"}],
    "checks": checks,
    "not_applicable": [{"property_id": k, "reason": v} for k, v in sorted(NOT_APPLICABLE.items())],
    "notes": "Single entry point bin/check <ID> --tier quick|thorough [--replay FILE]; VERIF_SEED selects the Hypothesis seeds. See DESIGN.md.",
}
json.dump(man, open(os.path.join(V, "MANIFEST.json"), "w"), indent=1)
print("claimed:", [c["property_id"] for c in checks], "not_applicable:", sorted(NOT_APPLICABLE))
