#!/usr/bin/env python3-vt
"""survey: enumerate every allocation-failure point of a few systems and list distinct failure signatures (triage aid)"""
import sys, os, re, json, collections
sys.path.insert(0, os.path.join(os.path.dirname(os.path.dirname(os.path.abspath(__file__))), "gen"))
import core
from props import C14
from hypothesis import strategies as st, given, settings, seed, HealthCheck, Phase
core.build("asan")
r = core.Runner("asan"); r.start()
sigs = collections.Counter(); examples = {}
orig = core.is_failure
cases = []
@settings(max_examples=int(sys.argv[1]) if len(sys.argv) > 1 else 12, database=None, deadline=None, suppress_health_check=list(HealthCheck), phases=[Phase.generate])
@seed(7)
@given(C14.strategy("quick"))
def t(case): cases.append(case)
t()
for case in cases:
    core.is_failure = lambda v: False       # do not stop at failures
    res = C14.evaluate(case, r)
    core.is_failure = orig
    for (text, v) in res:
        if v.get("v") in ("fail", "crash", "timeout") and core.match_known(core.load_known(), "C14", v.get("sig", ""), v.get("detail", "")) is None:
            sig = re.sub(r"0x[0-9a-f]+", "ADDR", v.get("sig", ""))
            sigs[sig] += 1; examples.setdefault(sig, text)
for s, c in sigs.most_common(): print(c, s)
json.dump(examples, open("/tmp/t/c14_examples.json", "w"))
