#!/bin/bash
# tools/try_mutant.sh <patch.diff> <tier> <ID...> : apply to /repo, run the checks, always undo
set -u
P=$(readlink -f "$1"); T=$2; shift 2
cd /verif
[ -z "$(git -C /repo status --porcelain --untracked-files=no)" ] || { echo "/repo not clean"; exit 9; }
git -C /repo apply "$P" || { echo "patch does not apply"; exit 8; }
trap 'git -C /repo checkout -- . ; rm -rf /verif/replays/found' EXIT
for id in "$@"; do
  out=$(bin/check $id --tier $T 2>&1); rc=$?
  echo "[$id rc=$rc] $(echo "$out" | grep -E "evaluations=|failing verdict|ERROR|BUILD" | head -3 | cut -c1-400 | tr '\n' '|')"
done
