#!/usr/bin/env python3
"""Second hook set (guarded, add-only): yield/record points inside the symbolic DFS routines and inside pxgstrf_pruneL,
so that the controlled scheduler can interleave a prune with a concurrent DFS and the monitor can check I3."""
import sys, pathlib
SRC = pathlib.Path(sys.argv[1] if len(sys.argv) > 1 else "/repo/SRC")
def blk(call, ind): return "#ifdef SLU_MT_VERIF\n%s%s\n#endif\n" % (ind, call)
# header
p = SRC / "slu_mt_util.h"; s = p.read_text()
a = "#define SLUV_SINGULAR       33"
assert s.count(a) == 1
line = [l for l in s.splitlines(keepends=True) if l.startswith(a)][0]
s = s.replace(line, line + "#define SLUV_DFS_STEP       34   /* a=krep b=1 if the pruned (second) subscript list is traversed c=column  (yield) */\n"
                           "#define SLUV_PRUNE_STEP     35   /* a=irep b=0 begin rewriting the second list, 1 before publishing, 2 published  (yield) */\n")
p.write_text(s)
# pruneL
p = SRC / "pxgstrf_pruneL.c"; s = p.read_text()
a = "    \t    if ( do_prune ) {\n"
assert s.count(a) == 1, s.count(a)
s = s.replace(a, a + blk("SLU_MT_VERIF_EVENT(SLUV_PRUNE_STEP, -1, irep, 0, jcol, Glu);", "\t\t"))
a = "\t        xprune[irep] = kmin;\t/* Pruning */\n"
assert s.count(a) == 1
s = s.replace(a, blk("SLU_MT_VERIF_EVENT(SLUV_PRUNE_STEP, -1, irep, 1, jcol, Glu);", "\t\t") + a)
a = "\t\tispruned[irep] = 1;\n"
assert s.count(a) == 1
s = s.replace(a, a + blk("SLU_MT_VERIF_EVENT(SLUV_PRUNE_STEP, -1, irep, 2, jcol, Glu);", "\t\t"))
p.write_text(s)
for c in "sdcz":
    # panel_dfs: two traversal starts, both followed by an "#ifdef CHK_DFS" block
    p = SRC / ("p%sgstrf_panel_dfs.c" % c); s = p.read_text()
    for tag in ("_panel_dfs[4]", "_panel_dfs[2]"):
        k = s.index(tag); k = s.rindex("#ifdef CHK_DFS", 0, k)
        s = s[:k] + blk("SLU_MT_VERIF_EVENT(SLUV_DFS_STEP, pnum, krep, ispruned[krep], jj, Glu);", "\t\t    ") + s[k:]
    p.write_text(s)
    # column_dfs
    p = SRC / ("p%sgstrf_column_dfs.c" % c); s = p.read_text()
    a = "\t\t}\n\t\t\n\t\tdo {\n"
    assert s.count(a) == 1, (p, s.count(a))
    s = s.replace(a, "\t\t}\n" + blk("SLU_MT_VERIF_EVENT(SLUV_DFS_STEP, pnum, krep, ispruned[krep], jcol, Glu);", "\t\t") + "\t\t\n\t\tdo {\n")
    a = "#endif\t\t    \n\t\t\t\t    }\n\t\t\t\t}\n\t\t\t    } /* else */\n"
    assert s.count(a) == 1, (p, s.count(a))
    s = s.replace(a, "#endif\t\t    \n\t\t\t\t    }\n" + blk("SLU_MT_VERIF_EVENT(SLUV_DFS_STEP, pnum, krep, ispruned[krep], jcol, Glu);", "\t\t\t\t    ") + "\t\t\t\t}\n\t\t\t    } /* else */\n")
    p.write_text(s)
