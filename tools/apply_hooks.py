#!/usr/bin/env python3
"""One-shot tool that inserted the SLU_MT_VERIF hooks into /repo (kept for the record;
the result is the guarded, add-only hook commit in /repo).  Every insertion is a
whole `#ifdef SLU_MT_VERIF ... #endif` block on its own lines; no existing line is
changed, so with the guard off the preprocessor output is unchanged."""
import re, sys, pathlib

SRC = pathlib.Path(sys.argv[1] if len(sys.argv) > 1 else "/repo/SRC")

def blk(call, indent="    "):
    return "#ifdef SLU_MT_VERIF\n%s%s\n#endif\n" % (indent, call)

def insert(path, anchor, text, where="before", count=1, occurrence=None):
    """insert text before/after the line(s) containing `anchor` (exact substring)."""
    p = SRC / path
    lines = p.read_text().splitlines(keepends=True)
    hits = [i for i, l in enumerate(lines) if anchor in l]
    if occurrence is not None:
        hits = [hits[occurrence]]
    assert len(hits) == count, (path, anchor, len(hits))
    for i in reversed(hits):
        if where == "before":
            lines.insert(i, text)
        else:
            lines.insert(i + 1, text)
    p.write_text("".join(lines))

HDR = r'''
#ifdef SLU_MT_VERIF
/* ---------------------------------------------------------------------
 * Verification hooks (compiled only with -DSLU_MT_VERIF; add-only).
 * The test harness supplies slu_mt_verif_event(); a weak no-op default
 * lives in util.c.  kind is one of the SLUV_* codes below.
 * --------------------------------------------------------------------- */
#define SLUV_SCHED_ENTER     3   /* a=cur_pan                      (yield) */
#define SLUV_SCHED_PICK      4   /* a=jcol b=STATE before BUSY c=tasks_remain (in C.S.) */
#define SLUV_SCHED_TAKE      5   /* a=jcol b=bcol c=tasks_remain   (in C.S.) */
#define SLUV_SCHED_EXIT      6   /* a=jcol b=bcol                  (yield) */
#define SLUV_PANEL_BEGIN     7   /* a=jcol b=w c=type */
#define SLUV_RELEASE_PRE     8   /* a=first col b=count            (yield) */
#define SLUV_RELEASE_POST    9   /* a=first col b=count            (yield) */
#define SLUV_PANEL_DONE_PRE 10   /* a=jcol                         (yield) */
#define SLUV_PANEL_DONE     11   /* a=jcol                         (yield) */
#define SLUV_NEWNSUPER      12   /* a=new supernode number         (yield) */
#define SLUV_LUSUP_ALLOC    13   /* a=jcol b=num c=prev_next ctx=Glu */
#define SLUV_U_ALLOC        14   /* a=jcol b=num c=prev_next       (yield) */
#define SLUV_LSUB_ALLOC     15   /* a=jcol b=num c=prev_next       (yield) */
#define SLUV_DYN_SETMAP     16   /* a=jcol b=num c=nextlu ctx=Glu  (yield) */
#define SLUV_AWAIT_SPIN     17   /* ctx=status word                (yield) */
#define SLUV_WAIT_COL       18   /* a=jcol b=awaited column */
#define SLUV_PRUNE_BEGIN    19   /* a=jj                           (yield) */
#define SLUV_PRUNE_END      20   /* a=jj                           (yield) */
#define SLUV_PRESETMAP      21   /* a=n ctx=Glu */
#define SLUV_PARINIT_END    22   /* a=n ctx=pxgstrf_shared */
#define SLUV_PARFINAL       23   /* ctx=pxgstrf_shared */
#define SLUV_UPDATE_SRC     24   /* a=jcol(panel) b=krep c=fsupc   panel update from a DONE supernode */
#define SLUV_UPDATE_BUSY    25   /* a=jcol(panel) b=krep c=fsupc   panel update from a waited-for supernode */
#define SLUV_UPDATE_COL     26   /* a=jcol(column) b=krep c=fsupc  column update inside the panel */
#define SLUV_COL_BEGIN      27   /* a=jj b=jcol                    (yield) */
#define SLUV_MARK_BUSY      28   /* a=jcol b=bcol in c=bcol out */
#define SLUV_PIVOT          29   /* a=jcol b=pivrow c=info */
#define SLUV_DFS_BEGIN      30   /* a=jcol b=w                     (yield) */
#define SLUV_DFS_END        31   /* a=jcol b=w                     (yield) */
#define SLUV_SNODE_BEGIN    32   /* a=jcol b=w */
extern void slu_mt_verif_event(int kind, long pnum, long a, long b, long c,
			       const void *ctx);
#define SLU_MT_VERIF_EVENT(k,p,a,b,c,x) \
    slu_mt_verif_event((k), (long)(p), (long)(a), (long)(b), (long)(c), (const void*)(x))
#endif /* SLU_MT_VERIF */
'''

def main():
    # ---- header + weak default
    p = SRC / "slu_mt_util.h"
    s = p.read_text()
    anchor = "/* *********************\n   Function prototypes\n"
    assert s.count(anchor) == 1
    s = s.replace(anchor, HDR.lstrip("\n") + "\n" + anchor, 1)
    p.write_text(s)

    p = SRC / "util.c"
    s = p.read_text()
    s += ('\n#ifdef SLU_MT_VERIF\n/* Weak default: the verification harness overrides it. */\n'
          '__attribute__((weak)) void\nslu_mt_verif_event(int kind, long pnum, long a, long b, long c,\n'
          '\t\t   const void *ctx)\n{\n    (void)kind; (void)pnum; (void)a; (void)b; (void)c; (void)ctx;\n}\n#endif\n')
    p.write_text(s)

    # ---- scheduler
    f = "pxgstrf_scheduler.c"
    insert(f, "mutex_lock( &pxgstrf_shared->lu_locks[SCHED_LOCK] );",
           blk("SLU_MT_VERIF_EVENT(SLUV_SCHED_ENTER, pnum, *cur_pan, 0, 0, pxgstrf_shared);"),
           "before", occurrence=0, count=1)
    # the insertion above landed after "#if ( MACH==SUN )": move before that line
    p = SRC / f
    s = p.read_text()
    b = blk("SLU_MT_VERIF_EVENT(SLUV_SCHED_ENTER, pnum, *cur_pan, 0, 0, pxgstrf_shared);")
    s = s.replace("#if ( MACH==SUN )\n" + b + "    mutex_lock( &pxgstrf_shared->lu_locks[SCHED_LOCK] );",
                  b + "#if ( MACH==SUN )\n    mutex_lock( &pxgstrf_shared->lu_locks[SCHED_LOCK] );", 1)
    p.write_text(s)
    insert(f, "\t    --pxgstrf_shared->tasks_remain;",
           blk("SLU_MT_VERIF_EVENT(SLUV_SCHED_PICK, pnum, jcol, STATE( jcol ), pxgstrf_shared->tasks_remain, pxgstrf_shared);", "\t"),
           "before")
    insert(f, "    *cur_pan = jcol;",
           blk("SLU_MT_VERIF_EVENT(SLUV_SCHED_TAKE, pnum, jcol, (jcol != EMPTY ? *bcol : EMPTY), pxgstrf_shared->tasks_remain, pxgstrf_shared);"),
           "after")
    # after the unlock block: anchor on the PROFILE cs_time line that follows it
    insert(f, "    Gstat->procstat[pnum].cs_time += SuperLU_timer_() - t;",
           blk("SLU_MT_VERIF_EVENT(SLUV_SCHED_EXIT, pnum, *cur_pan, *bcol, 0, pxgstrf_shared);"),
           "after")
    # ... that landed inside "#ifdef PROFILE"; move it after the #endif
    s = p.read_text()
    b = blk("SLU_MT_VERIF_EVENT(SLUV_SCHED_EXIT, pnum, *cur_pan, *bcol, 0, pxgstrf_shared);")
    s = s.replace("    Gstat->procstat[pnum].cs_time += SuperLU_timer_() - t;\n" + b + "#endif\n",
                  "    Gstat->procstat[pnum].cs_time += SuperLU_timer_() - t;\n#endif\n" + b, 1)
    assert s.count("SLUV_SCHED_EXIT") == 1
    p.write_text(s)

    # ---- synch
    f = "pxgstrf_synch.c"
    p = SRC / f
    s = p.read_text()
    b = blk("SLU_MT_VERIF_EVENT(SLUV_PARINIT_END, -1, n, 0, 0, pxgstrf_shared);")
    s = s.replace("    return 0;\n} /* ParallelInit */", b + "    return 0;\n} /* ParallelInit */", 1)
    b = blk("SLU_MT_VERIF_EVENT(SLUV_PARFINAL, -1, 0, 0, 0, pxgstrf_shared);")
    s = s.replace("int_t ParallelFinalize(pxgstrf_shared_t *pxgstrf_shared)\n{\n",
                  "int_t ParallelFinalize(pxgstrf_shared_t *pxgstrf_shared)\n{\n" + b, 1)
    b = blk("SLU_MT_VERIF_EVENT(SLUV_NEWNSUPER, pnum, i, 0, 0, pxgstrf_shared);")
    s = s.replace("#ifdef PROFILE\n    Gstat->procstat[pnum].cs_time += SuperLU_timer_() - t;\n#endif\n\t\n    return i;",
                  "#ifdef PROFILE\n    Gstat->procstat[pnum].cs_time += SuperLU_timer_() - t;\n#endif\n" + b + "\t\n    return i;", 1)
    assert s.count("SLU_MT_VERIF_EVENT") == 3, s.count("SLU_MT_VERIF_EVENT")
    p.write_text(s)

    # ---- pmemory: Glu_alloc / DynamicSetMap
    f = "pmemory.c"
    p = SRC / f
    s = p.read_text()
    b = blk("SLU_MT_VERIF_EVENT(SLUV_LUSUP_ALLOC, pnum, jcol, num, *prev_next, Glu);", "\t")
    s = s.replace("\tGlu->map_in_sup[fsupc] += num;\n", "\tGlu->map_in_sup[fsupc] += num;\n" + b, 1)
    # U and LSUB: after the "#endif" of the PROFILE block that follows the unlock, before "break;"
    bu = blk("SLU_MT_VERIF_EVENT(SLUV_U_ALLOC, pnum, jcol, num, *prev_next, pxgstrf_shared);", "\t")
    bl = blk("SLU_MT_VERIF_EVENT(SLUV_LSUB_ALLOC, pnum, jcol, num, *prev_next, pxgstrf_shared);", "\t")
    old_u = "#ifdef PROFILE\n\tGstat->procstat[pnum].cs_time += SuperLU_timer_() - t;\n#endif\n\t\n\tbreak;\n"
    assert s.count(old_u) == 1
    s = s.replace(old_u, old_u.replace("\tbreak;\n", bu + "\tbreak;\n"), 1)
    old_l = "#ifdef PROFILE\n\tGstat->procstat[pnum].cs_time += SuperLU_timer_() - t;\n#endif\n\t\n\t  break;\n"
    assert s.count(old_l) == 1
    s = s.replace(old_l, old_l.replace("\t  break;\n", bl + "\t  break;\n"), 1)
    bd = blk("SLU_MT_VERIF_EVENT(SLUV_DYN_SETMAP, pnum, jcol, num, nextlu, Glu);")
    old_d = "#ifdef PROFILE\n    Gstat->procstat[pnum].cs_time += SuperLU_timer_() - t;\n#endif\n\n    return 0;\n}"
    assert s.count(old_d) == 1, s.count(old_d)
    s = s.replace(old_d, old_d.replace("\n    return 0;\n}", bd + "\n    return 0;\n}"), 1)
    p.write_text(s)

    # ---- await
    f = "await.c"
    insert(f, "    while ( *status ) ;",
           "#ifdef SLU_MT_VERIF\n    while ( *status ) SLU_MT_VERIF_EVENT(SLUV_AWAIT_SPIN, -1, 0, 0, 0, status);\n#endif\n",
           "before")

    # ---- mark_busy_descends
    f = "pxgstrf_mark_busy_descends.c"
    p = SRC / f
    s = p.read_text()
    b = blk("SLU_MT_VERIF_EVENT(SLUV_MARK_BUSY, pnum, jcol, bcol_reg, *bcol, pxgstrf_shared);")
    old = "    } /* if bcol_reg < jcol */\n"
    assert s.count(old) == 1
    s = s.replace(old, old + b, 1)
    p.write_text(s)

    # ---- per precision files
    for c in "sdcz":
        f = "p%sgstrf_thread.c" % c
        p = SRC / f
        s = p.read_text()
        def rep(old, new, cnt=1):
            nonlocal s
            assert s.count(old) == cnt, (f, old, s.count(old))
            s = s.replace(old, new)
        rep("\t    w = pxgstrf_shared->pan_status[jcol].size;\n",
            "\t    w = pxgstrf_shared->pan_status[jcol].size;\n" +
            blk("SLU_MT_VERIF_EVENT(SLUV_PANEL_BEGIN, pnum, jcol, w, pxgstrf_shared->pan_status[jcol].type, pxgstrf_shared);", "\t    "))
        rep("\t\t/* A relaxed supernode at the bottom of the etree */\n",
            blk("SLU_MT_VERIF_EVENT(SLUV_SNODE_BEGIN, pnum, jcol, w, 0, pxgstrf_shared);", "\t\t") +
            "\t\t/* A relaxed supernode at the bottom of the etree */\n")
        rep("\t\t/* Release the whole relaxed supernode */\n",
            blk("SLU_MT_VERIF_EVENT(SLUV_RELEASE_PRE, pnum, jcol, w, 0, pxgstrf_shared);", "\t\t") +
            "\t\t/* Release the whole relaxed supernode */\n")
        rep("\t\t    pxgstrf_shared->spin_locks[jj] = 0;\n#ifdef PREDICT_OPT\n",
            "\t\t    pxgstrf_shared->spin_locks[jj] = 0;\n" +
            blk("SLU_MT_VERIF_EVENT(SLUV_RELEASE_POST, pnum, jcol, w, 0, pxgstrf_shared);", "\t\t") +
            "#ifdef PREDICT_OPT\n")
        rep("\t\t/* Symbolic factor on a panel of columns */\n",
            blk("SLU_MT_VERIF_EVENT(SLUV_DFS_BEGIN, pnum, jcol, w, 0, pxgstrf_shared);", "\t\t") +
            "\t\t/* Symbolic factor on a panel of columns */\n")
        rep("\t\t/* Numeric sup-panel updates in topological order.\n",
            blk("SLU_MT_VERIF_EVENT(SLUV_DFS_END, pnum, jcol, w, 0, pxgstrf_shared);", "\t\t") +
            "\t\t/* Numeric sup-panel updates in topological order.\n")
        rep("\t\t    k = (jj - jcol) * m; /* index into w-wide arrays */\n",
            "\t\t    k = (jj - jcol) * m; /* index into w-wide arrays */\n" +
            blk("SLU_MT_VERIF_EVENT(SLUV_COL_BEGIN, pnum, jj, jcol, 0, pxgstrf_shared);", "\t\t    "))
        rep("                    /* release column \"jj\", so that the other processes\n",
            blk("SLU_MT_VERIF_EVENT(SLUV_PIVOT, pnum, jj, pivrow, *info, pxgstrf_shared);", "\t\t    ") +
            blk("SLU_MT_VERIF_EVENT(SLUV_RELEASE_PRE, pnum, jj, 1, 0, pxgstrf_shared);", "\t\t    ") +
            "                    /* release column \"jj\", so that the other processes\n")
        rep("\t\t    pxgstrf_shared->spin_locks[jj] = 0;\n\t\t    \n\t\t    /* copy the U-segments to ucol[*] */\n",
            "\t\t    pxgstrf_shared->spin_locks[jj] = 0;\n" +
            blk("SLU_MT_VERIF_EVENT(SLUV_RELEASE_POST, pnum, jj, 1, 0, pxgstrf_shared);", "\t\t    ") +
            "\t\t    \n\t\t    /* copy the U-segments to ucol[*] */\n")
        rep("\t\t    /* Prune columns [0:jj-1] using column jj */\n",
            blk("SLU_MT_VERIF_EVENT(SLUV_PRUNE_BEGIN, pnum, jj, 0, 0, pxgstrf_shared);", "\t\t    ") +
            "\t\t    /* Prune columns [0:jj-1] using column jj */\n")
        rep("\t\t    /* Reset repfnz[] for this column */\n",
            blk("SLU_MT_VERIF_EVENT(SLUV_PRUNE_END, pnum, jj, 0, 0, pxgstrf_shared);", "\t\t    ") +
            "\t\t    /* Reset repfnz[] for this column */\n")
        rep("\t    STATE( jcol ) = DONE; /* Release panel jcol. */\n",
            blk("SLU_MT_VERIF_EVENT(SLUV_PANEL_DONE_PRE, pnum, jcol, 0, 0, pxgstrf_shared);", "\t    ") +
            "\t    STATE( jcol ) = DONE; /* Release panel jcol. */\n" +
            blk("SLU_MT_VERIF_EVENT(SLUV_PANEL_DONE, pnum, jcol, 0, 0, pxgstrf_shared);", "\t    "))
        p.write_text(s)

        # panel_bmod
        f = "p%sgstrf_panel_bmod.c" % c
        p = SRC / f
        s = p.read_text()
        rep("\tnrow = nsupr - nsupc;\n\n#ifdef PREDICT_OPT\n\tpmod = Gstat->procstat[pnum].fcops;\n",
            "\tnrow = nsupr - nsupc;\n" +
            blk("SLU_MT_VERIF_EVENT(SLUV_UPDATE_SRC, pnum, jcol, krep, fsupc, pxgstrf_shared);", "\t") +
            "\n#ifdef PREDICT_OPT\n\tpmod = Gstat->procstat[pnum].fcops;\n")
        rep("\t    await( &pxgstrf_shared->spin_locks[kcol] );\n",
            blk("SLU_MT_VERIF_EVENT(SLUV_WAIT_COL, pnum, jcol, kcol, 0, pxgstrf_shared);", "\t    ") +
            "\t    await( &pxgstrf_shared->spin_locks[kcol] );\n")
        rep("\t\tawait ( &pxgstrf_shared->spin_locks[kcol] );\n",
            blk("SLU_MT_VERIF_EVENT(SLUV_WAIT_COL, pnum, jcol, kcol, 1, pxgstrf_shared);", "\t\t") +
            "\t\tawait ( &pxgstrf_shared->spin_locks[kcol] );\n")
        rep("\tsegrep[*nseg] = krep;\n        ++(*nseg);\n",
            "\tsegrep[*nseg] = krep;\n        ++(*nseg);\n" +
            blk("SLU_MT_VERIF_EVENT(SLUV_UPDATE_BUSY, pnum, jcol, krep, fsupc, pxgstrf_shared);", "\t"))
        p.write_text(s)

        # column_bmod
        f = "p%sgstrf_column_bmod.c" % c
        p = SRC / f
        s = p.read_text()
        rep("\t    fsupc = xsup[ksupno];\n\t    fst_col = SUPERLU_MAX ( fsupc, fpanelc );\n",
            "\t    fsupc = xsup[ksupno];\n\t    fst_col = SUPERLU_MAX ( fsupc, fpanelc );\n" +
            blk("SLU_MT_VERIF_EVENT(SLUV_UPDATE_COL, pnum, jcol, krep, fsupc, pxgstrf_shared);", "\t    "))
        p.write_text(s)

        # PresetMap
        f = "p%smemory.c" % c
        p = SRC / f
        s = p.read_text()
        rep("    free (marker);\n    return nextpos;\n",
            blk("SLU_MT_VERIF_EVENT(SLUV_PRESETMAP, -1, n, nextpos, 0, Glu);") +
            "    free (marker);\n    return nextpos;\n")
        p.write_text(s)

if __name__ == "__main__":
    main()
