#!/bin/bash
# run every thorough command once (used with `vp run --with-repo`): VERIF_REPO selects the repository copy
cd "$(dirname "$0")/.."
[ -n "${VP_RUN_REPO:-}" ] && export VERIF_REPO=$VP_RUN_REPO
bin/setup >/dev/null 2>&1
for p in ${@:-C01 C02 C03 C04 C05 C06 C07 C08 C09 C10 C11 C12 C13 C14 C15 C16 C17 C18 C19 C20}; do
  echo "=== $p $(date +%T)"
  bin/check $p --tier thorough 2>&1 | grep -v "^KNOWN" | tail -6 | cut -c1-600
done
echo "=== DONE $(date +%T)"
