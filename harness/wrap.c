/* wrap.c — link-time seams: malloc/calloc/realloc/free/exit/pthread_create wrappers (ld --wrap),
 * and the harness' own sp_ienv() / xerbla_() which the linker prefers over the archive members. */
#define _GNU_SOURCE
#include "slu_mt_ddefs.h"
#include "hx.h"
#include <pthread.h>
#include <unistd.h>
#include <execinfo.h>
#include <dlfcn.h>
#include <errno.h>

void *__real_malloc(size_t); void __real_free(void*); void *__real_calloc(size_t, size_t); void *__real_realloc(void*, size_t);
void __real_exit(int) __attribute__((noreturn));

volatile int g_track = 0;
long g_alloc_seq = 0, g_fail_from = 0, g_fail_only = 0, g_failed_count = 0;
int  g_exit_policy = EXITPOL_VIOLATION;
const char *g_phase = "init";

/* ---------------------------------------------------------------- live table (open addressing) */
#define LT_BITS 16
#define LT_SIZE (1u << LT_BITS)
#define BT_DEPTH 6
typedef struct { void *p; size_t sz; long seq; void *bt[BT_DEPTH]; int nbt; int epoch; } lt_ent;
static lt_ent lt[LT_SIZE];
static long lt_count = 0, lt_bytes = 0;
static int  lt_epoch = 0;
static pthread_mutex_t lt_mu = PTHREAD_MUTEX_INITIALIZER;
#define TOMB ((void*)1)

static unsigned lt_hash(void *p) { uintptr_t x = (uintptr_t)p; x ^= x >> 17; x *= 0x9E3779B97F4A7C15ull; return (unsigned)(x >> (64 - LT_BITS)); }

static void lt_insert(void *p, size_t sz)
{
    HX_LOCK(&lt_mu);
    unsigned h = lt_hash(p);
    for (unsigned k = 0; k < LT_SIZE; ++k) {
        lt_ent *e = &lt[(h + k) & (LT_SIZE - 1)];
        if (e->p == NULL || e->p == TOMB) {
            e->p = p; e->sz = sz; e->seq = g_alloc_seq; e->epoch = lt_epoch;
            e->nbt = backtrace(e->bt, BT_DEPTH);
            lt_count++; lt_bytes += (long)sz;
            break;
        }
    }
    pthread_mutex_unlock(&lt_mu);
}
static int lt_remove(void *p)
{
    int found = 0;
    HX_LOCK(&lt_mu);
    unsigned h = lt_hash(p);
    for (unsigned k = 0; k < LT_SIZE; ++k) {
        lt_ent *e = &lt[(h + k) & (LT_SIZE - 1)];
        if (e->p == NULL) break;
        if (e->p == p) { e->p = TOMB; lt_count--; lt_bytes -= (long)e->sz; found = 1; break; }
    }
    pthread_mutex_unlock(&lt_mu);
    return found;
}
long live_count(void) { long c = 0; HX_LOCK(&lt_mu);
    for (unsigned k = 0; k < LT_SIZE; ++k) if (lt[k].p && lt[k].p != TOMB && lt[k].epoch == lt_epoch) c++;
    pthread_mutex_unlock(&lt_mu); return c; }
long live_bytes(void) { long c = 0; HX_LOCK(&lt_mu);
    for (unsigned k = 0; k < LT_SIZE; ++k) if (lt[k].p && lt[k].p != TOMB && lt[k].epoch == lt_epoch) c += (long)lt[k].sz;
    pthread_mutex_unlock(&lt_mu); return c; }
void live_snapshot(long *count, long *bytes) { *count = live_count(); *bytes = live_bytes(); }
void live_mark_epoch(void) { HX_LOCK(&lt_mu); lt_epoch++; pthread_mutex_unlock(&lt_mu); }
int ptr_in_tracked_block(const void *q)
{
    int r = 0; HX_LOCK(&lt_mu);
    for (unsigned k = 0; k < LT_SIZE && !r; ++k)
        if (lt[k].p && lt[k].p != TOMB && (const char*)q >= (const char*)lt[k].p && (const char*)q < (const char*)lt[k].p + lt[k].sz) r = 1;
    pthread_mutex_unlock(&lt_mu); return r;
}
static const char *symname(void *addr, char *tmp, size_t n)
{
    Dl_info di;
    if (dladdr(addr, &di) && di.dli_sname) return di.dli_sname;
    snprintf(tmp, n, "%p", addr); return tmp;
}
int live_describe(char *buf, size_t len, int max)
{
    int shown = 0; size_t off = 0; buf[0] = 0;
    HX_LOCK(&lt_mu);
    for (unsigned k = 0; k < LT_SIZE && shown < max; ++k) {
        lt_ent *e = &lt[k];
        if (!e->p || e->p == TOMB || e->epoch != lt_epoch) continue;
        char tmp[32];
        off += snprintf(buf + off, off < len ? len - off : 0, "%s[%zuB@", shown ? ";" : "", e->sz);
        int first = 1;
        for (int i = 0; i < e->nbt; ++i) {
            const char *s = symname(e->bt[i], tmp, sizeof tmp);
            if (strstr(s, "lt_insert") || strstr(s, "__wrap_") || strstr(s, "backtrace")) continue;
            off += snprintf(buf + off, off < len ? len - off : 0, "%s%s", first ? "" : "<-", s); first = 0;
            if (off >= len) break;
        }
        off += snprintf(buf + off, off < len ? len - off : 0, "]");
        shown++;
        if (off >= len) break;
    }
    pthread_mutex_unlock(&lt_mu);
    return shown;
}
/* call chain of the current (failing) allocation, for signatures */
char g_last_fail_chain[512];
static void record_fail_chain(void)
{
    void *bt[12]; int n = backtrace(bt, 12); size_t off = 0; char tmp[32]; int first = 1, named = 0;
    g_last_fail_chain[0] = 0;
    for (int i = 0; i < n; ++i) {
        const char *s = symname(bt[i], tmp, sizeof tmp);
        if (strstr(s, "record_fail_chain") || strstr(s, "__wrap_") || strstr(s, "should_fail")) continue;
        if (s[0] == '0' && s[1] == 'x') continue;                      /* unresolved (static) frame */
        if (!strcmp(s, "superlu_malloc") || !strcmp(s, "intMalloc") || !strcmp(s, "intCalloc") || strstr(s, "Malloc") || strstr(s, "Calloc")) { if (first) continue; }
        if (++named > 3) break;
        if (!strcmp(s, "main") || strstr(s, "prop_") || strstr(s, "run_child") || strstr(s, "__libc")) break;
        off += snprintf(g_last_fail_chain + off, sizeof g_last_fail_chain - off, "%s%s", first ? "" : "<-", s); first = 0;
        if (off >= sizeof g_last_fail_chain - 1) break;
    }
    { extern void hx_ctx_add(const char *); char w[200]; snprintf(w, sizeof w, "failchain=%.180s", g_last_fail_chain); hx_ctx_add(w); }
}
static int should_fail(void)
{
    long k = __atomic_add_fetch(&g_alloc_seq, 1, __ATOMIC_SEQ_CST);
    if ((g_fail_from > 0 && k >= g_fail_from) || (g_fail_only > 0 && k == g_fail_only)) {
        if (__atomic_add_fetch(&g_failed_count, 1, __ATOMIC_SEQ_CST) == 1) record_fail_chain();
        return 1;
    }
    return 0;
}

void *__wrap_malloc(size_t n)
{
    if (!g_track) return __real_malloc(n);
    if (should_fail()) { errno = ENOMEM; return NULL; }
    void *p = __real_malloc(n);
    if (p) { memset(p, 0x7F, n); lt_insert(p, n); }   /* 0x7f7f..: huge finite double/float, out-of-range index: uninitialised reads become loud */
    return p;
}
void *__wrap_calloc(size_t a, size_t b)
{
    if (!g_track) return __real_calloc(a, b);
    if (should_fail()) { errno = ENOMEM; return NULL; }
    void *p = __real_calloc(a, b);
    if (p) lt_insert(p, a * b);
    return p;
}
void *__wrap_realloc(void *q, size_t n)
{
    if (!g_track) { if (q) lt_remove(q); return __real_realloc(q, n); }
    if (should_fail()) { errno = ENOMEM; return NULL; }
    if (q) lt_remove(q);
    void *p = __real_realloc(q, n);
    if (p) lt_insert(p, n);
    return p;
}
void __wrap_free(void *p)
{
    if (p) lt_remove(p);
    __real_free(p);
}
void *hx_malloc(size_t n) { void *p = __real_malloc(n ? n : 1); if (!p) { fprintf(stderr, "harness OOM\n"); _exit(99); } return p; }
void *hx_calloc(size_t a, size_t b) { void *p = __real_calloc(a ? a : 1, b ? b : 1); if (!p) { fprintf(stderr, "harness OOM\n"); _exit(99); } return p; }
void *hx_realloc(void *q, size_t n) { void *p = __real_realloc(q, n ? n : 1); if (!p) { fprintf(stderr, "harness OOM\n"); _exit(99); } return p; }
void  hx_free(void *p) { if (p) lt_remove(p); __real_free(p); }
char *hx_strdup(const char *s) { size_t n = strlen(s) + 1; char *p = hx_malloc(n); memcpy(p, s, n); return p; }

/* ---------------------------------------------------------------- exit() from library code */
extern void hx_library_exit(int code);   /* runner.c */
void __wrap_exit(int code)
{
    if (g_track) hx_library_exit(code);   /* does not return */
    __real_exit(code);
}

/* ---------------------------------------------------------------- pthread_create trampoline */
int __real_pthread_create(pthread_t *, const pthread_attr_t *, void *(*)(void *), void *);
extern void ctl_thread_start(long pnum, void *arg);
extern void ctl_thread_exit(long pnum, void *arg);
typedef struct { void *(*fn)(void *); void *arg; } tramp_t;
static void *tramp(void *p)
{
    tramp_t t = *(tramp_t *)p; __real_free(p);
    long pnum = (long)*(int_t *)t.arg;               /* p?gstrf_threadarg_t begins with int_t pnum */
    ctl_thread_start(pnum, t.arg);
    void *r = t.fn(t.arg);
    ctl_thread_exit(pnum, t.arg);
    return r;
}
int __wrap_pthread_create(pthread_t *th, const pthread_attr_t *attr, void *(*fn)(void *), void *arg)
{
    if (!g_track) return __real_pthread_create(th, attr, fn, arg);
    tramp_t *t = __real_malloc(sizeof *t); t->fn = fn; t->arg = arg;
    return __real_pthread_create(th, attr, tramp, t);
}

/* ---------------------------------------------------------------- tunables and error handler */
int g_ienv[9] = { 0, 8, 4, 20, 20, 10, -50, -50, -30 };
int_t sp_ienv(int_t ispec)
{
    if (ispec >= 1 && ispec <= 8) return g_ienv[ispec];
    return 0;
}
int g_xerbla_calls = 0; char g_xerbla_name[32]; int g_xerbla_pos = 0;
int xerbla_(char *srname, int *info)
{
    g_xerbla_calls++;
    snprintf(g_xerbla_name, sizeof g_xerbla_name, "%s", srname);
    g_xerbla_pos = *info;
    return 0;
}

/* ---------------------------------------------------------------- pthread_mutex_lock under the controlled scheduler
 * A worker that holds the scheduling token must never block in the kernel on a library mutex held by a worker that is waiting
 * for the token.  Library objects therefore get a try-lock loop whose failed attempts are reported to the controller as spin
 * steps (the thread is treated as blocked until some thread makes progress).  This also makes it safe for hook points inside
 * library critical sections to be yield points. */
int __real_pthread_mutex_lock(pthread_mutex_t *);
extern int ctl_mutex_wait_step(void);      /* sched.c: returns 0 when the caller is not a controlled worker */
extern void slu_mt_verif_event(int kind, long pnum, long a, long b, long c, const void *ctx);
#define HXV_LOCK_ACQUIRE 100     /* harness-internal event kind: a worker is about to take a library lock (scheduling point) */
int __wrap_pthread_mutex_lock(pthread_mutex_t *m)
{
    if (!g_track) return __real_pthread_mutex_lock(m);
    /* taking a lock is a scheduling point: what a thread read before asking for the lock may be stale by the time it gets it */
    slu_mt_verif_event(HXV_LOCK_ACQUIRE, -1, 0, 0, 0, m);
    { extern void sched_maybe_long_stall(void); sched_maybe_long_stall(); }
    for (;;) {
        int r = pthread_mutex_trylock(m);
        if (r != EBUSY) return r;
        if (!ctl_mutex_wait_step()) return __real_pthread_mutex_lock(m);
    }
}

#ifdef __OPENMP
/* ---------------------------------------------------------------- OpenMP build: the same controller drives the OpenMP team
 * p?gstrf starts its workers with `#pragma omp parallel for` over nprocs iterations and protects its shared state with named
 * `omp critical` regions.  The parallel region is started with exactly nprocs threads (static schedule: thread k runs iteration
 * k = worker pnum k), each team member registers with the controller like a pthread worker does, and the named critical regions
 * become try-lock loops on harness-owned mutexes so that the token holder never blocks in the kernel. */
#include <omp.h>
void __real_GOMP_parallel(void (*fn)(void *), void *data, unsigned num_threads, unsigned flags);
extern int sched_current_P(void);
typedef struct { void (*fn)(void *); void *data; } omp_tramp_t;
static void omp_tramp(void *p)
{
    omp_tramp_t *t = (omp_tramp_t *)p; long pnum = omp_get_thread_num();
    ctl_thread_start(pnum, NULL);
    t->fn(t->data);
    ctl_thread_exit(pnum, NULL);
}
void __wrap_GOMP_parallel(void (*fn)(void *), void *data, unsigned num_threads, unsigned flags)
{
    if (!g_track) { __real_GOMP_parallel(fn, data, num_threads, flags); return; }
    omp_tramp_t t = { fn, data };
    __real_GOMP_parallel(omp_tramp, &t, (unsigned)sched_current_P(), flags);
}
static struct { void **key; pthread_mutex_t m; } omp_crit[32];
static int omp_ncrit = 0;
static pthread_mutex_t omp_crit_tab = PTHREAD_MUTEX_INITIALIZER;
static pthread_mutex_t *omp_crit_find(void **pptr)
{
    pthread_mutex_t *r = NULL;
    __real_pthread_mutex_lock(&omp_crit_tab);
    for (int i = 0; i < omp_ncrit; ++i) if (omp_crit[i].key == pptr) r = &omp_crit[i].m;
    if (!r && omp_ncrit < 32) { omp_crit[omp_ncrit].key = pptr; pthread_mutex_init(&omp_crit[omp_ncrit].m, NULL); r = &omp_crit[omp_ncrit++].m; }
    pthread_mutex_unlock(&omp_crit_tab);
    if (!r) abort();
    return r;
}
void __wrap_GOMP_critical_name_start(void **pptr)
{
    pthread_mutex_t *m = omp_crit_find(pptr);
    slu_mt_verif_event(HXV_LOCK_ACQUIRE, -1, 0, 0, 0, m);
    for (;;) {
        int r = pthread_mutex_trylock(m);
        if (r != EBUSY) return;
        if (!ctl_mutex_wait_step()) { __real_pthread_mutex_lock(m); return; }
    }
}
void __wrap_GOMP_critical_name_end(void **pptr) { pthread_mutex_unlock(omp_crit_find(pptr)); }
#endif
