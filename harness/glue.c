/* glue.c — compiled four times (-DHX_P=1..4 for s,d,c,z): typed wrappers behind a common vtable. */
#if HX_P == 1
#include <string.h>
#include "slu_mt_sdefs.h"
#define PX(n) ps##n
#define X(n)  s##n
#define SPX(n) sp_s##n
#define VT slu_vt_s
#define REAL float
#define ELEM float
#define PREC 's'
#define DT SLU_S
#define CPLX 0
#elif HX_P == 2
#include "slu_mt_ddefs.h"
#define PX(n) pd##n
#define X(n)  d##n
#define SPX(n) sp_d##n
#define VT slu_vt_d
#define REAL double
#define ELEM double
#define PREC 'd'
#define DT SLU_D
#define CPLX 0
#elif HX_P == 3
#include "slu_mt_cdefs.h"
#define PX(n) pc##n
#define X(n)  c##n
#define SPX(n) sp_c##n
#define VT slu_vt_c
#define REAL float
#define ELEM complex
#define PREC 'c'
#define DT SLU_C
#define CPLX 1
#else
#include "slu_mt_zdefs.h"
#define PX(n) pz##n
#define X(n)  z##n
#define SPX(n) sp_z##n
#define VT slu_vt_z
#define REAL double
#define ELEM doublecomplex
#define PREC 'z'
#define DT SLU_Z
#define CPLX 1
#endif
#include "hx.h"

extern REAL X(langs)(char *, SuperMatrix *);
extern void X(readrb)(int_t *, int_t *, int_t *, ELEM **, int_t **, int_t **);
extern void X(readhb)(int_t *, int_t *, int_t *, ELEM **, int_t **, int_t **);
extern void X(readmt)(int_t *, int_t *, int_t *, ELEM **, int_t **, int_t **);
extern REAL X(PivotGrowth)(int_t, SuperMatrix *, int_t *, SuperMatrix *, SuperMatrix *);

static void g_gssv(int_t np, SuperMatrix *A, int_t *pc, int_t *pr, SuperMatrix *L, SuperMatrix *U, SuperMatrix *B, int_t *info)
{ PX(gssv)(np, A, pc, pr, L, U, B, info); }

static void g_gssvx(int_t np, superlumt_options_t *o, SuperMatrix *A, int_t *pc, int_t *pr, equed_t *eq, void *R, void *C,
                    SuperMatrix *L, SuperMatrix *U, SuperMatrix *B, SuperMatrix *Xm,
                    double *rpg, double *rcond, void *ferr, void *berr, superlu_memusage_t *mu, int_t *info)
{
    REAL rpg_ = (REAL)*rpg, rcond_ = (REAL)*rcond;
    PX(gssvx)(np, o, A, pc, pr, eq, (REAL*)R, (REAL*)C, L, U, B, Xm, &rpg_, &rcond_, (REAL*)ferr, (REAL*)berr, mu, info);
    *rpg = rpg_; *rcond = rcond_;
}

static void g_gstrf_init(int_t np, fact_t f, trans_t t, yes_no_t refact, int_t panel, int_t relax, double u, yes_no_t usepr,
                         double drop, int_t *pc, int_t *pr, void *work, int_t lwork, SuperMatrix *A, SuperMatrix *AC,
                         superlumt_options_t *o, Gstat_t *gs)
{
    /* the options structure is an output of p?gstrf_init: hand it over with arbitrary content (a first-time call sets every field it
       later relies on; a refactorization reuses the arrays stored in it by the first call) */
    if (refact == NO) memset(o, 0x7F, sizeof *o);
    PX(gstrf_init)(np, f, t, refact, panel, relax, (REAL)u, usepr, drop, pc, pr, work, lwork, A, AC, o, gs);
}

static void g_gstrf(superlumt_options_t *o, SuperMatrix *AC, int_t *pr, SuperMatrix *L, SuperMatrix *U, Gstat_t *gs, int_t *info)
{ PX(gstrf)(o, AC, pr, L, U, gs, info); }

static void g_gstrs(trans_t t, SuperMatrix *L, SuperMatrix *U, int_t *pr, int_t *pc, SuperMatrix *B, Gstat_t *gs, int_t *info)
{ X(gstrs)(t, L, U, pr, pc, B, gs, info); }

static void g_gsrfs(trans_t t, SuperMatrix *A, SuperMatrix *L, SuperMatrix *U, int_t *pr, int_t *pc, equed_t eq, void *R, void *C,
                    SuperMatrix *B, SuperMatrix *Xm, void *ferr, void *berr, Gstat_t *gs, int_t *info)
{ X(gsrfs)(t, A, L, U, pr, pc, eq, (REAL*)R, (REAL*)C, B, Xm, (REAL*)ferr, (REAL*)berr, gs, info); }

static void g_gscon(char *norm, SuperMatrix *L, SuperMatrix *U, double anorm, double *rcond, int_t *info)
{ REAL rc = (REAL)*rcond; X(gscon)(norm, L, U, (REAL)anorm, &rc, info); *rcond = rc; }

static void g_gsequ(SuperMatrix *A, void *r, void *c, double *rowcnd, double *colcnd, double *amax, int_t *info)
{ REAL a = (REAL)*rowcnd, b = (REAL)*colcnd, m = (REAL)*amax; X(gsequ)(A, (REAL*)r, (REAL*)c, &a, &b, &m, info);
  *rowcnd = a; *colcnd = b; *amax = m; }

static void g_laqgs(SuperMatrix *A, void *r, void *c, double rowcnd, double colcnd, double amax, equed_t *eq)
{ X(laqgs)(A, (REAL*)r, (REAL*)c, (REAL)rowcnd, (REAL)colcnd, (REAL)amax, eq); }

static double g_pivotgrowth(int_t nc, SuperMatrix *A, int_t *pc, SuperMatrix *L, SuperMatrix *U)
{ return (double) X(PivotGrowth)(nc, A, pc, L, U); }

static double g_langs(char *norm, SuperMatrix *A) { return (double) X(langs)(norm, A); }

static int_t g_sp_trsv(char *uplo, char *trans, char *diag, SuperMatrix *L, SuperMatrix *U, void *x, int_t *info)
{ return SPX(trsv)(uplo, trans, diag, L, U, (ELEM*)x, info); }

#if CPLX
#define MKSCAL(name, re, im) ELEM name; name.r = (REAL)(re); name.i = (REAL)(im)
#else
#define MKSCAL(name, re, im) ELEM name = (ELEM)(re); (void)(im)
#endif

static int_t g_sp_gemv(char *trans, double ar, double ai, SuperMatrix *A, void *x, int_t incx, double br, double bi, void *y, int_t incy)
{ MKSCAL(al, ar, ai); MKSCAL(be, br, bi); return SPX(gemv)(trans, al, A, (ELEM*)x, incx, be, (ELEM*)y, incy); }

static int_t g_sp_gemm(char *trans, int_t m, int_t n, int_t k, double ar, double ai, SuperMatrix *A, void *b, int_t ldb,
                       double br, double bi, void *c, int_t ldc)
{ MKSCAL(al, ar, ai); MKSCAL(be, br, bi); return SPX(gemm)(trans, m, n, k, al, A, (ELEM*)b, ldb, be, (ELEM*)c, ldc); }

static void g_r2c(int_t m, int_t n, int_t nnz, void *a, int_t *colind, int_t *rowptr, void **at, int_t **rowind, int_t **colptr)
{ X(CompRow_to_CompCol)(m, n, nnz, (ELEM*)a, colind, rowptr, (ELEM**)at, rowind, colptr); }

static void g_copy(SuperMatrix *A, SuperMatrix *B) { X(Copy_CompCol_Matrix)(A, B); }
static void g_readhb(int_t *m, int_t *n, int_t *nz, void **v, int_t **ri, int_t **cp) { X(readhb)(m, n, nz, (ELEM**)v, ri, cp); }
static void g_readrb(int_t *m, int_t *n, int_t *nz, void **v, int_t **ri, int_t **cp) { X(readrb)(m, n, nz, (ELEM**)v, ri, cp); }
static void g_readmt(int_t *m, int_t *n, int_t *nz, void **v, int_t **ri, int_t **cp) { X(readmt)(m, n, nz, (ELEM**)v, ri, cp); }
static void g_finalize(superlumt_options_t *o, SuperMatrix *AC) { pxgstrf_finalize(o, AC); }
#if HX_P == 1
#define QS superlu_sQuerySpace
#elif HX_P == 2
#define QS superlu_dQuerySpace
#elif HX_P == 3
#define QS superlu_cQuerySpace
#else
#define QS superlu_zQuerySpace
#endif
static float g_query(int_t P, SuperMatrix *L, SuperMatrix *U, int_t panel, superlu_memusage_t *mu)
{ return (float) QS(P, L, U, panel, mu); }

const slu_vt VT = {
    PREC, DT, CPLX, (sizeof(REAL) == 4), sizeof(ELEM), sizeof(REAL),
    (sizeof(REAL) == 4) ? 5.9604644775390625e-08 : 1.1102230246251565e-16,
    g_gssv, g_gssvx, g_gstrf_init, g_gstrf, g_gstrs, g_gsrfs, g_gscon, g_gsequ, g_laqgs, g_pivotgrowth, g_langs,
    g_sp_trsv, g_sp_gemv, g_sp_gemm, g_r2c, g_copy, g_readhb, g_readrb, g_readmt, g_finalize, g_query
};
