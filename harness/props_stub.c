/* props_stub.c — placeholders for properties whose runner code lives elsewhere or is not built yet */
#include "slu_mt_ddefs.h"
#include "hx.h"
#define STUB(n) __attribute__((weak)) void prop_##n(void) { verdict_skip("property " #n " has no runner entry"); }
STUB(C05) STUB(C06) STUB(C07) STUB(C08) STUB(C10) STUB(C11) STUB(C12) STUB(C13) STUB(C14) STUB(C15) STUB(C16) STUB(C17) STUB(C18) STUB(C19) STUB(C20)
