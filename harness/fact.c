/* fact.c — factor/solve oracles in extended precision (independent of the library's kernels) */
#define _GNU_SOURCE
#include <float.h>
#include "slu_mt_ddefs.h"
#include "fact.h"
#include <math.h>

static ld mag(const slu_vt *vt, zq a) { return vt->is_complex ? zq_abs1(a) : fabsl(a.re); }   /* library's pivoting magnitude */
static ld modu(const slu_vt *vt, zq a) { return vt->is_complex ? zq_abs(a) : fabsl(a.re); }
static ld ueff(const slu_vt *vt) { return vt->is_complex ? 8 * (ld)vt->eps : (ld)vt->eps; }
/* absolute allowance for gradual underflow: the model fl(a op b) = (a op b)(1+d) + eta, |eta| <= smallest normal * u,
 * holds for every operation; at most n+1 such terms, each amplified by at most max|l| (and |x| in solves). */
static ld underflow_allowance(const slu_vt *vt, dense_lu *D)
{
    int n = D->n; ld tn = vt->is_single ? 0x1p-126L : 0x1p-1022L; ld ml = 1;
    for (size_t k = 0; k < (size_t)n * n; ++k) { ld a = zq_abs(D->L[k]); if (a > ml) ml = a; }
    return 4 * (n + 1) * tn * ml;
}

void case_order(hx_matrix *M, int_t *perm_c)
{
    int n = M->n;
    const char *o = P_str("order", "0");
    if (!strcmp(o, "user")) { for (int i = 0; i < n; ++i) perm_c[i] = (i < G->npc) ? G->pc[i] : i; if (!is_perm(perm_c, n)) verdict_skip("bad user permutation in case file"); return; }
    int spec = atoi(o);
    LIB(get_perm_c(spec, &M->A, perm_c));
    if (!is_perm(perm_c, n)) verdict_fail("C10:get_perm_c_not_bijection", "get_perm_c(%d) returned a non-permutation", spec);
}

csc_q factored_view(hx_matrix *M)
{
    csc_q F; F.n = M->n;
    if (!M->stype) { F.ptr = M->cptr; F.ind = M->cind; F.val = M->cval; return F; }
    /* NR: F = A^T : column j of F = row j of A = CSR row j */
    int n = M->n; long nnz = M->nnz;
    F.ptr = hx_malloc(sizeof(int_t) * (n + 1)); F.ind = hx_malloc(sizeof(int_t) * (nnz ? nnz : 1)); F.val = hx_malloc(sizeof(zq) * (nnz ? nnz : 1));
    for (int j = 0; j <= n; ++j) F.ptr[j] = M->ptr[j];
    for (long p = 0; p < nnz; ++p) { F.ind[p] = M->ind[p]; el_get(M->vt, M->val, p, &F.val[p].re, &F.val[p].im); }
    return F;
}
void free_csc_q(csc_q *F) { (void)F; }

int check_reconstruction(const slu_vt *vt, csc_q *F, dense_lu *D, const int_t *perm_r, const int_t *perm_c, char *msg, size_t mn)
{
    int n = D->n; ld tol = 2 * gam(n + 1, ueff(vt)); ld tiny = underflow_allowance(vt, D);
    zq *P = hx_calloc(n + 1, sizeof(zq)); ld *AP = hx_calloc(n + 1, sizeof(ld)); zq *Fc = hx_calloc(n + 1, sizeof(zq));
    int *ipc = hx_malloc(sizeof(int) * (n + 1)); for (int j = 0; j < n; ++j) ipc[perm_c[j]] = j;
    int bad = 0; ld worst = 0;
    for (int jj = 0; jj < n && !bad; ++jj) {
        for (int i = 0; i < n; ++i) { P[i].re = P[i].im = 0; AP[i] = 0; Fc[i].re = Fc[i].im = 0; }
        for (int k = 0; k <= jj; ++k) { zq u = D->U[(size_t)jj * n + k]; if (u.re == 0 && u.im == 0) continue; ld au = zq_abs(u);
            const zq *Lk = &D->L[(size_t)k * n];
            for (int i = k; i < n; ++i) { zq l = Lk[i]; if (l.re == 0 && l.im == 0) continue; P[i] = zq_add(P[i], zq_mul(l, u)); AP[i] += zq_abs(l) * au; } }
        int j = ipc[jj];
        for (long p = F->ptr[j]; p < F->ptr[j + 1]; ++p) { int r = perm_r[F->ind[p]]; Fc[r] = zq_add(Fc[r], F->val[p]); }
        for (int i = 0; i < n; ++i) {
            ld e = zq_abs(zq_sub(Fc[i], P[i])); ld b = tol * AP[i] + tiny;
            if (!(e <= b)) { bad = 1; snprintf(msg, mn, "|Pr*A*Pc - L*U|(%d,%d) = %.3Le exceeds %.3Le = 2*gamma(n+1)*(|L||U|)(%d,%d) (A entry %.6Le, LU %.6Le)", i, jj, e, b, i, jj, Fc[i].re, P[i].re); break; }
            if (b > 0 && e / b > worst) worst = e / b;
        }
    }
    feat("recon_worst", (double)worst);
    hx_free(P); hx_free(AP); hx_free(Fc); hx_free(ipc);
    return bad;
}

int check_pivot_policy(const slu_vt *vt, dense_lu *D, const int_t *perm_r, const int_t *perm_c, double u, int usepr, int symmetric_expect,
                       long *ambiguous, long *offdiag, long *diag_kept, char *msg, size_t mn)
{
    int n = D->n; ld eps = vt->eps; ld band = (vt->is_complex ? 16 : 8) * eps;
    int *ipc = hx_malloc(sizeof(int) * (n + 1)); for (int j = 0; j < n; ++j) ipc[perm_c[j]] = j;
    long amb = 0, off = 0, kept = 0; int bad = 0; ld maxmult = 0;
    for (int j = 0; j < n && !bad; ++j) {
        zq ujj = D->U[(size_t)j * n + j]; ld mj = mag(vt, ujj), maxv = mj;
        const zq *Lj = &D->L[(size_t)j * n];
        for (int i = j + 1; i < n; ++i) { zq l = Lj[i]; if (l.re == 0 && l.im == 0) continue;
            ld v = mag(vt, zq_mul(l, ujj)); if (v > maxv) maxv = v;
            ld ml = modu(vt, l); if (ml > maxmult) maxmult = ml;
            if (u > 0) { ld lim = (vt->is_complex ? sqrtl(2.0L) : 1.0L) * (1 + band) / (ld)u;
                if (ml > lim) { bad = 1; snprintf(msg, mn, "multiplier |l(%d,%d)| = %.6Le exceeds %s/u = %.6Le (u=%g)", i, j, ml, vt->is_complex ? "sqrt2" : "1", lim, u); break; } }
        }
        if (bad) break;
        if (u > 0 && mj < (ld)u * maxv * (1 - band)) { bad = 1; snprintf(msg, mn, "pivot of column %d has magnitude %.6Le < u*max = %.6Le (u=%g)", j, mj, (ld)u * maxv, u); break; }
        int d = ipc[j];            /* original column index of column j of A*Pc = row index of its diagonal entry */
        int dp = perm_r[d];
        if (dp != j) off++; else kept++;
        if (symmetric_expect && dp != j) { bad = 1; snprintf(msg, mn, "symmetric mode: pivot of column %d is row %d, not the diagonal", j, dp); break; }
        if (!usepr && dp > j) {
            zq l = Lj[dp]; ld vd = mag(vt, zq_mul(l, ujj));
            if (vd != 0) {
                ld th = (ld)u * maxv;
                if (vd >= th * (1 + band) && vd > 0) { bad = 1; snprintf(msg, mn, "column %d: original diagonal entry (pivoted row %d) has magnitude %.6Le >= u*max = %.6Le but row %d was chosen as pivot", j, dp, vd, th, j); break; }
                else if (vd >= th * (1 - band)) amb++;
            }
        }
    }
    feat("max_multiplier", (double)maxmult);
    *ambiguous = amb; *offdiag = off; *diag_kept = kept;
    hx_free(ipc);
    return bad;
}

static void residual(const slu_vt *vt, csc_q *F, int op, const void *X, int ldx, const void *B0, int ldb, int k, zq *r, ld *den)
{
    int n = F->n;
    for (int i = 0; i < n; ++i) { el_get(vt, B0, (long)k * ldb + i, &r[i].re, &r[i].im); if (den) den[i] = zq_abs(r[i]); }
    for (int j = 0; j < n; ++j) {
        zq xj; el_get(vt, X, (long)k * ldx + j, &xj.re, &xj.im);
        for (long p = F->ptr[j]; p < F->ptr[j + 1]; ++p) {
            int i = F->ind[p]; zq a = F->val[p];
            if (op == 0) { r[i] = zq_sub(r[i], zq_mul(a, xj)); if (den) den[i] += zq_abs(a) * zq_abs(xj); }
            else { if (op == 2) a.im = -a.im; zq xi; el_get(vt, X, (long)k * ldx + i, &xi.re, &xi.im); r[j] = zq_sub(r[j], zq_mul(a, xi)); if (den) den[j] += zq_abs(a) * zq_abs(xi); }
        }
    }
}

ld backward_error(const slu_vt *vt, csc_q *F, int op, const void *X, int ldx, const void *B0, int ldb, int k)
{
    int n = F->n; zq *r = hx_calloc(n + 1, sizeof(zq)); ld *den = hx_calloc(n + 1, sizeof(ld)); ld w = 0;
    residual(vt, F, op, X, ldx, B0, ldb, k, r, den);
    for (int i = 0; i < n; ++i) { ld e = zq_abs(r[i]); if (den[i] > 0) { if (e / den[i] > w) w = e / den[i]; } else if (e > 0) w = INFINITY; }
    hx_free(r); hx_free(den); return w;
}

/* componentwise backward error in the two-category form of Arioli, Demmel and Duff: a row whose denominator (|op(A)||x| + |b|)_i is
   negligible against ||op(A)_i||_1 ||x||_inf + |b_i| (a structurally zero solution component met by a zero right-hand side entry)
   is measured against the latter; such a row makes the plain Oettli-Prager quotient 1 for any X that is not exactly zero there,
   which no refinement in floating point removes.  *ntiny counts those rows. */
ld backward_error_add(const slu_vt *vt, csc_q *F, int op, const void *X, int ldx, const void *B0, int ldb, int k, int *ntiny)
{
    int n = F->n; zq *r = hx_calloc(n + 1, sizeof(zq)); ld *den = hx_calloc(n + 1, sizeof(ld)), *rn = hx_calloc(n + 1, sizeof(ld)); ld w = 0, xinf = 0; int nt = 0;
    residual(vt, F, op, X, ldx, B0, ldb, k, r, den);
    for (int j = 0; j < n; ++j) { zq x; el_get(vt, X, (long)k * ldx + j, &x.re, &x.im); ld a = zq_abs(x); if (a > xinf) xinf = a;
        for (long p = F->ptr[j]; p < F->ptr[j + 1]; ++p) rn[op == 0 ? F->ind[p] : j] += zq_abs(F->val[p]); }
    for (int i = 0; i < n; ++i) { zq b; el_get(vt, B0, (long)k * ldb + i, &b.re, &b.im); ld alt = rn[i] * xinf + zq_abs(b), e = zq_abs(r[i]), dd = den[i];
        if (dd < 1000 * (ld)n * (ld)vt->eps * alt) { dd = alt; if (e > 0) nt++; }
        if (dd > 0) { if (e / dd > w) w = e / dd; } else if (e > 0) w = INFINITY; }
    if (ntiny) *ntiny = nt;
    hx_free(r); hx_free(den); hx_free(rn); return w;
}

/* exact (extended precision) solve with the returned factors: does some intermediate or final magnitude leave the range of the
   working precision?  Then a non-finite X is the correct floating-point outcome (the rounding-error model of C01/C07/C08 assumes no
   overflow); otherwise it is a violation. */
static int exact_solve_overflows(const slu_vt *vt, dense_lu *D, const int_t *perm_r, const int_t *perm_c, int op, const void *B0, int ldb, int k, ld *maxmag)
{
    int n = D->n; zq *v = hx_calloc(n + 1, sizeof(zq)); ld mx = 0;
    for (int i = 0; i < n; ++i) { zq b; el_get(vt, B0, (long)k * ldb + i, &b.re, &b.im); v[op == 0 ? perm_r[i] : perm_c[i]] = b; }
    if (op == 0) {
        for (int j = 0; j < n; ++j) { zq yj = v[j]; if (yj.re == 0 && yj.im == 0) continue; const zq *Lj = &D->L[(size_t)j * n];
            for (int i = j + 1; i < n; ++i) if (Lj[i].re != 0 || Lj[i].im != 0) { v[i] = zq_sub(v[i], zq_mul(Lj[i], yj)); ld a = zq_abs(v[i]); if (a > mx) mx = a; } }
        for (int j = n - 1; j >= 0; --j) { const zq *Uj = &D->U[(size_t)j * n]; v[j] = zq_div(v[j], Uj[j]); ld a = zq_abs(v[j]); if (a > mx || a != a) mx = a != a ? INFINITY : a;
            for (int i = 0; i < j; ++i) if (Uj[i].re != 0 || Uj[i].im != 0) { v[i] = zq_sub(v[i], zq_mul(Uj[i], v[j])); ld c = zq_abs(v[i]); if (c > mx) mx = c; } }
    } else {
        for (int j = 0; j < n; ++j) { const zq *Uj = &D->U[(size_t)j * n]; zq sacc = v[j];
            for (int i = 0; i < j; ++i) if (Uj[i].re != 0 || Uj[i].im != 0) { zq u = Uj[i]; if (op == 2) u.im = -u.im; sacc = zq_sub(sacc, zq_mul(u, v[i])); }
            zq d = Uj[j]; if (op == 2) d.im = -d.im; v[j] = zq_div(sacc, d); ld a = zq_abs(v[j]); if (a > mx || a != a) mx = a != a ? INFINITY : a; }
        for (int i = n - 1; i >= 0; --i) { const zq *Li = &D->L[(size_t)i * n]; zq sacc = v[i];
            for (int r2 = i + 1; r2 < n; ++r2) if (Li[r2].re != 0 || Li[r2].im != 0) { zq l = Li[r2]; if (op == 2) l.im = -l.im; sacc = zq_sub(sacc, zq_mul(l, v[r2])); }
            v[i] = sacc; ld a = zq_abs(v[i]); if (a > mx) mx = a; }
    }
    hx_free(v);
    if (maxmag) *maxmag = mx;
    ld realmax = vt->is_single ? (ld)FLT_MAX : (ld)DBL_MAX;
    return !(mx < realmax / 64);
}

int check_residual(const slu_vt *vt, csc_q *F, dense_lu *D, const int_t *perm_r, const int_t *perm_c, int op,
                   const void *X, int ldx, const void *B0, int ldb, int nrhs, double *worst_ratio, char *msg, size_t mn)
{
    int n = F->n; ld tol = 4 * gam(3 * n + 2, ueff(vt)); ld tiny0 = underflow_allowance(vt, D);
    zq *r = hx_calloc(n + 1, sizeof(zq)); ld *y = hx_calloc(n + 1, sizeof(ld)), *z = hx_calloc(n + 1, sizeof(ld)), *w = hx_calloc(n + 1, sizeof(ld));
    int bad = 0; ld worst = 0;
    for (int k = 0; k < nrhs && !bad; ++k) {
        for (int j = 0; j < n; ++j) { zq x; el_get(vt, X, (long)k * ldx + j, &x.re, &x.im);
            if (!isfinite((double)x.re) || !isfinite((double)x.im)) { ld mm = 0;
                if (exact_solve_overflows(vt, D, perm_r, perm_c, op, B0, ldb, k, &mm)) verdict_skip("non-finite X, and the exact solve with the returned factors leaves the range of the working precision (max magnitude %.2Le)", mm);
                bad = 1; snprintf(msg, mn, "X(%d,%d) is not finite (the exact solve with the returned factors stays below %.2Le)", j, k, mm); break; }
            if (op == 0) y[perm_c[j]] = zq_abs(x); else y[perm_r[j]] = zq_abs(x); }
        if (bad) break;
        residual(vt, F, op, X, ldx, B0, ldb, k, r, NULL);
        ld xmax = 1; for (int j = 0; j < n; ++j) if (y[j] > xmax) xmax = y[j];
        ld tiny = tiny0 * xmax * 3;
        if (op == 0) {
            for (int i = 0; i < n; ++i) { ld s = 0; for (int j = i; j < n; ++j) s += zq_abs(D->U[(size_t)j * n + i]) * y[j]; z[i] = s; }       /* z = |U| y */
            for (int i = 0; i < n; ++i) w[i] = 0;
            for (int j = 0; j < n; ++j) { if (z[j] == 0) continue; const zq *Lj = &D->L[(size_t)j * n]; for (int i = j; i < n; ++i) w[i] += zq_abs(Lj[i]) * z[j]; } /* w = |L| z */
            for (int i = 0; i < n; ++i) { ld e = zq_abs(r[i]), b = tol * w[perm_r[i]] + tiny;
                if (!(e <= b)) { bad = 1; snprintf(msg, mn, "rhs %d row %d: |b - A x| = %.3Le exceeds 4*gamma(3n+2)*(Pr^T|L||U|Pc^T|x|) = %.3Le", k, i, e, b); break; }
                if (b > 0 && e / b > worst) worst = e / b; }
        } else {
            for (int j = 0; j < n; ++j) { ld s = 0; const zq *Lj = &D->L[(size_t)j * n]; for (int i = j; i < n; ++i) s += zq_abs(Lj[i]) * y[i]; z[j] = s; }   /* z = |L|^T y */
            for (int j = 0; j < n; ++j) { ld s = 0; for (int i = 0; i <= j; ++i) s += zq_abs(D->U[(size_t)j * n + i]) * z[i]; w[j] = s; }                   /* w = |U|^T z */
            for (int j = 0; j < n; ++j) { ld e = zq_abs(r[j]), b = tol * w[perm_c[j]] + tiny;
                if (!(e <= b)) { bad = 1; snprintf(msg, mn, "rhs %d row %d: |b - op(A) x| = %.3Le exceeds 4*gamma(3n+2)*bound = %.3Le (transposed solve)", k, j, e, b); break; }
                if (b > 0 && e / b > worst) worst = e / b; }
        }
    }
    if (worst_ratio) *worst_ratio = (double)worst;
    hx_free(r); hx_free(y); hx_free(z); hx_free(w);
    return bad;
}

void features_of_matrix(hx_matrix *M)
{
    feat("n", M->n); feat("nnz", (double)M->nnz); feat("nr", M->stype);
    int zd = 0; for (int j = 0; j < M->n && j < M->m; ++j) { int f = 0; for (long p = M->cptr[j]; p < M->cptr[j + 1]; ++p) if (M->cind[p] == j) f = 1; if (!f) zd++; }
    feat("zero_diag", zd);
}
void features_of_LU(dense_lu *D, const int_t *perm_r, const int_t *perm_c)
{
    (void)perm_r; (void)perm_c;
    feat("nsuper", D->nsuper + 1); feat("maxsup", D->maxsup); feat("nnzL", (double)D->nnzL); feat("nnzU", (double)D->nnzU); feat("sup_monotone", D->monotone);
    int offU = 0; for (int j = 0; j < D->n && !offU; ++j) for (int i = 0; i < j; ++i) if (D->U[(size_t)j * D->n + i].re != 0 || D->U[(size_t)j * D->n + i].im != 0) { offU = 1; break; }
    feat("offdiag_U", offU);
}
