/* fx.h — shared factorization driver state */
#ifndef FX_H
#define FX_H
#include "fact.h"
typedef struct {
    const slu_vt *vt; hx_matrix *M; int n, P;
    int_t *perm_c, *perm_r;
    SuperMatrix L, U, AC;
    superlumt_options_t opt; Gstat_t gs;
    int_t info;
    double u; int usepr;
    dense_lu *D;
    uint64_t hashA;
    int have_opt, have_LU;
} fx_t;
void fx_init(fx_t *x);
void fx_options(fx_t *x, superlumt_options_t *o, fact_t fact, trans_t trans, yes_no_t refact);
void fx_factor_gstrf(fx_t *x);
void fx_finish_gstrf(fx_t *x);
void fx_factor_gssv(fx_t *x, SuperMatrix *B);
void fx_check_structure(fx_t *x, int topo);
void fx_check_A_unchanged(fx_t *x);
int  ref_nonsingular(const slu_vt *vt, csc_q *F, ld *growth_out, ld *minpiv_rel);
int  count_tasks(void); int count_fds(void); int tasks_after(int expected);
#endif
