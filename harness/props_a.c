/* props_a.c — C01, C02, C09 (and the shared factorization driver fx_*) */
#define _GNU_SOURCE
#include "slu_mt_ddefs.h"
#include "fact.h"
#include "fx.h"
#include <math.h>
#include <dirent.h>
#include <time.h>

int count_tasks(void)
{
    DIR *d = opendir("/proc/self/task"); if (!d) return -1; int c = 0; struct dirent *e;
    while ((e = readdir(d))) if (e->d_name[0] != '.') c++;
    closedir(d); return c;
}
/* after pthread_join the kernel may still list the exited task for an instant: wait briefly before calling it a leftover thread */
int tasks_after(int expected)
{
#ifdef __OPENMP
    return expected;      /* the OpenMP runtime keeps its team threads between parallel regions by design */
#endif
    int c = count_tasks();
    for (int i = 0; i < 200 && c != expected; ++i) { struct timespec ts = { 0, 1000000 }; nanosleep(&ts, NULL); c = count_tasks(); }
    return c;
}
int count_fds(void)
{
    DIR *d = opendir("/proc/self/fd"); if (!d) return -1; int c = 0; struct dirent *e;
    while ((e = readdir(d))) if (e->d_name[0] != '.') c++;
    closedir(d); return c - 1;
}

void fx_init(fx_t *x)
{
    memset(x, 0, sizeof *x);
    x->vt = vt_of(P_str("prec", "d")[0]);
    x->M = build_matrix(x->vt); x->n = x->M->n; x->P = (int)P_int("P", 1);
    x->perm_c = hx_malloc(sizeof(int_t) * (x->n + 1)); x->perm_r = hx_malloc(sizeof(int_t) * (x->n + 1));
    for (int i = 0; i < x->n; ++i) x->perm_r[i] = -7;
    x->u = P_dbl("u", 1.0); x->usepr = (int)P_int("usepr", 0);
    features_of_matrix(x->M);
    feat("P", x->P);
    case_order(x->M, x->perm_c);
    if (x->usepr) { long len; double *pr = P_list("pr", &len); if (len != x->n) verdict_skip("usepr without pr list"); for (int i = 0; i < x->n; ++i) x->perm_r[i] = (int_t)pr[i]; }
    x->hashA = hash_supermatrix_nc(x->vt, &x->M->A);
    { csc_q F = factored_view(x->M); int sr = structural_rank(x->n, F.ptr, F.ind); feat("sprank_deficit", x->n - sr);
      if (sr < x->n) hx_ctx_add("struct_rank_deficient"); }
}

void fx_options(fx_t *x, superlumt_options_t *o, fact_t fact, trans_t trans, yes_no_t refact)
{
    int n = x->n;
    o->nprocs = x->P; o->fact = fact; o->trans = trans; o->refact = refact;
    o->panel_size = g_ienv[1]; o->relax = g_ienv[2]; o->diag_pivot_thresh = x->u; o->drop_tol = 0.0;
    o->ColPerm = NATURAL; o->usepr = x->usepr ? YES : NO; o->SymmetricMode = P_int("symm", 0) ? YES : NO; o->PrintStat = NO;
    o->perm_c = x->perm_c; o->perm_r = x->perm_r; o->work = NULL; o->lwork = 0;
    if (refact == NO) {
        o->etree = hx_malloc(sizeof(int_t) * (n + 1)); o->colcnt_h = hx_malloc(sizeof(int_t) * (n + 1)); o->part_super_h = hx_malloc(sizeof(int_t) * (n + 1));
    }
}

/* factor through p?gstrf_init + p?gstrf (matrix must be NC) */
void fx_factor_gstrf(fx_t *x)
{
    const slu_vt *vt = x->vt; int n = x->n;
    if (x->M->stype) verdict_skip("gstrf path needs NC storage");
    int t0 = count_tasks();
    sched_begin_factor(x->P);
    g_track = 1;
    StatAlloc(n, x->P, g_ienv[1], g_ienv[2], &x->gs); StatInit(n, x->P, &x->gs);
    vt->gstrf_init(x->P, DOFACT, NOTRANS, NO, g_ienv[1], g_ienv[2], x->u, x->usepr ? YES : NO, 0.0, x->perm_c, x->perm_r, NULL, 0,
                   &x->M->A, &x->AC, &x->opt, &x->gs);
    if (P_int("symm", 0)) verdict_skip("symmetric mode is not reachable through p?gstrf_init");
    g_phase = "gstrf";
    vt->gstrf(&x->opt, &x->AC, x->perm_r, &x->L, &x->U, &x->gs, &x->info);
    g_track = 0;
    sched_end_factor();
    int t1 = tasks_after(t0);
    if (t0 != t1) verdict_fail("C04:thread_count_changed", "threads before factorization %d, after %d", t0, t1);
    x->have_opt = 1; x->have_LU = 1;
}
void fx_finish_gstrf(fx_t *x)
{
    g_track = 1; x->vt->finalize(&x->opt, &x->AC); StatFree(&x->gs); g_track = 0; x->have_opt = 0;
}

/* simple driver */
void fx_factor_gssv(fx_t *x, SuperMatrix *B)
{
    int t0 = count_tasks();
    sched_begin_factor(x->P);
    g_phase = "gssv";
    LIB(x->vt->gssv(x->P, &x->M->A, x->perm_c, x->perm_r, &x->L, &x->U, B, &x->info));
    sched_end_factor();
    int t1 = tasks_after(t0);
    if (t0 != t1) verdict_fail("C04:thread_count_changed", "threads before the driver call %d, after %d", t0, t1);
    x->have_LU = 1;
}

int ref_nonsingular(const slu_vt *vt, csc_q *F, ld *growth_out, ld *minpiv_rel);
/* common post-factorization oracle: permutations, C09 predicate, extraction */
void fx_check_structure(fx_t *x, int topo)
{
    int n = x->n;
    if (!is_perm(x->perm_c, n)) verdict_fail("oracle:perm_c_not_bijection", "perm_c is not a permutation of 0..%d", n - 1);
    if (!is_perm(x->perm_r, n)) verdict_fail("oracle:perm_r_not_bijection", "perm_r is not a permutation of 0..%d", n - 1);
    const char *bad = validate_LU(x->vt, n, &x->L, &x->U, topo, 1);
    if (bad) { char cls[64]; snprintf(cls, sizeof cls, "%s", bad); char *c = strchr(cls, ':'); if (c) *c = 0;
        char sig[100]; snprintf(sig, sizeof sig, "oracle:LU_malformed:%s", cls); verdict_fail(sig, "%s", bad); }
    x->D = extract_LU(x->vt, n, &x->L, &x->U);
    features_of_LU(x->D, x->perm_r, x->perm_c);
    for (size_t k = 0; k < (size_t)n * n; ++k) if (!isfinite((double)x->D->L[k].re) || !isfinite((double)x->D->L[k].im) || !isfinite((double)x->D->U[k].re) || !isfinite((double)x->D->U[k].im))
        {   /* 1/pivot overflows when a column cancels down to a denormal: legitimate only on a matrix that is singular to working precision */
            csc_q F = factored_view(x->M); ld g = 0, mp = 0;
            if (x->u < 1.0) verdict_skip("non-finite L/U under a pivoting threshold u=%g < 1 (element growth is unbounded)", x->u);
            if (!ref_nonsingular(x->vt, &F, &g, &mp)) verdict_skip("non-finite L/U on a matrix that is singular to working precision (reference: min pivot/amax %.2Le)", mp);
            verdict_fail("oracle:LU_not_finite", "L or U contains a non-finite value (reference elimination: growth %.2Le, min pivot/amax %.2Le)", g, mp); }
}
void fx_check_A_unchanged(fx_t *x)
{
    if (hash_supermatrix_nc(x->vt, &x->M->A) != x->hashA) verdict_fail("oracle:A_modified", "the caller's matrix A (header or arrays) was modified");
}

/* reference dense GEPP in extended precision: returns 1 if F is comfortably nonsingular */
int ref_nonsingular(const slu_vt *vt, csc_q *F, ld *growth_out, ld *minpiv_rel)
{
    int n = F->n; zq *A = hx_calloc((size_t)n * n + 1, sizeof(zq)); ld amax = 0;
    for (int j = 0; j < n; ++j) for (long p = F->ptr[j]; p < F->ptr[j + 1]; ++p) { zq *a = &A[(size_t)j * n + F->ind[p]]; *a = zq_add(*a, F->val[p]); }
    for (size_t k = 0; k < (size_t)n * n; ++k) { ld a = zq_abs(A[k]); if (a > amax) amax = a; }
    ld minp = INFINITY, gmax = amax; int ok = 1;
    for (int k = 0; k < n; ++k) {
        int piv = k; ld best = zq_abs(A[(size_t)k * n + k]);
        for (int i = k + 1; i < n; ++i) { ld a = zq_abs(A[(size_t)k * n + i]); if (a > best) { best = a; piv = i; } }
        if (best == 0) { ok = 0; minp = 0; break; }
        if (piv != k) for (int j = 0; j < n; ++j) { zq t = A[(size_t)j * n + k]; A[(size_t)j * n + k] = A[(size_t)j * n + piv]; A[(size_t)j * n + piv] = t; }
        if (best < minp) minp = best;
        zq pk = A[(size_t)k * n + k];
        for (int i = k + 1; i < n; ++i) { zq *l = &A[(size_t)k * n + i]; if (l->re == 0 && l->im == 0) continue; *l = zq_div(*l, pk); }
        for (int j = k + 1; j < n; ++j) { zq ukj = A[(size_t)j * n + k]; if (ukj.re == 0 && ukj.im == 0) continue;
            for (int i = k + 1; i < n; ++i) { zq l = A[(size_t)k * n + i]; if (l.re == 0 && l.im == 0) continue; zq *a = &A[(size_t)j * n + i]; *a = zq_sub(*a, zq_mul(l, ukj)); ld m = zq_abs(*a); if (m > gmax) gmax = m; } }
    }
    hx_free(A);
    if (growth_out) *growth_out = amax > 0 ? gmax / amax : 1;
    if (minpiv_rel) *minpiv_rel = amax > 0 ? minp / amax : 0;
    (void)vt;
    return ok && amax > 0 && minp / amax > 1e3 * (ld)vt->eps * n;
}

static void info_nonzero(fx_t *x, csc_q *F, const char *what)
{
    ld g, mp; int ns = ref_nonsingular(x->vt, F, &g, &mp);
    if (!ns) verdict_skip("%s returned info=%d on a matrix the reference finds (nearly) singular (min pivot/amax=%.2Le)", what, (int)x->info, mp);
    verdict_fail("oracle:info_nonzero", "%s returned info=%d for a nonsingular matrix (reference: growth %.2Le, min pivot/amax %.2Le)", what, (int)x->info, g, mp);
}

/* ------------------------------------------------------------------ C01 */
void prop_C01(void)
{
    fx_t x; fx_init(&x);
    const slu_vt *vt = x.vt; int n = x.n;
    int nrhs = (int)P_int("nrhs", 1), ldb = (int)P_int("ldb", n); if (ldb < n) ldb = n; if (ldb < 1) ldb = 1;
    void *bval; SuperMatrix B; make_dense_B(vt, n, nrhs, ldb, &bval, &B, 1);
    size_t bbytes = vt->esize * (size_t)ldb * (nrhs > 0 ? nrhs : 0);
    void *b0 = hx_malloc(bbytes + 1); memcpy(b0, bval, bbytes);
    g_exit_policy = EXITPOL_VIOLATION;
    fx_factor_gssv(&x, &B);
    csc_q F = factored_view(x.M);
    feat("info", x.info);
    fx_check_A_unchanged(&x);
    if (x.info != 0) info_nonzero(&x, &F, "simple driver");
    fx_check_structure(&x, 1);
    /* padding rows of B untouched */
    for (int k = 0; k < nrhs; ++k) for (int i = n; i < ldb; ++i)
        if (memcmp((char *)bval + vt->esize * ((size_t)k * ldb + i), (char *)b0 + vt->esize * ((size_t)k * ldb + i), vt->esize))
            verdict_fail("oracle:B_padding_modified", "row %d >= n of B (leading dimension padding) was modified", i);
    char msg[400]; double worst = 0;
    if (check_residual(vt, &F, x.D, x.perm_r, x.perm_c, x.M->stype ? 1 : 0, bval, ldb, b0, ldb, nrhs, &worst, msg, sizeof msg)) {
        /* a non-finite X is legitimate when the matrix is singular to working precision (overflow in the back substitution) */
        if (strstr(msg, "is not finite")) { ld g, mp; if (!ref_nonsingular(vt, &F, &g, &mp)) verdict_skip("non-finite X on a matrix that is singular to working precision (min pivot/amax %.2Le)", mp); }
        verdict_fail("oracle:residual_bound", "%s", msg); }
    feat("resid_worst", worst);
    if (P_int("also_recon", 1)) { if (check_reconstruction(vt, &F, x.D, x.perm_r, x.perm_c, msg, sizeof msg)) verdict_fail("oracle:reconstruction_bound", "%s", msg); }
    verdict_pass();
}

/* ------------------------------------------------------------------ C02 / C09 / C03 / C04 share this body */
static void factor_and_check(int which)
{
    fx_t x; fx_init(&x);
    const slu_vt *vt = x.vt; int n = x.n;
    const char *via = P_str("via", "gstrf");
    g_exit_policy = EXITPOL_VIOLATION;
    void *bval = NULL, *b0 = NULL; SuperMatrix B; int nrhs = 1;
    if (!strcmp(via, "gssv") || x.M->stype) {
        make_dense_B(vt, n, nrhs, n > 0 ? n : 1, &bval, &B, 0);
        if (x.usepr) verdict_skip("usepr needs the gstrf path");
        fx_factor_gssv(&x, &B);
    } else {
        fx_factor_gstrf(&x);
    }
    (void)b0;
    csc_q F = factored_view(x.M);
    feat("info", x.info);
    fx_check_A_unchanged(&x);
    if (x.info != 0) {
        if (P_int("expect_singular_ok", 0)) { feat("singular", 1); verdict_pass(); }
        /* C02 is conditional on info = 0.  With a threshold u < 1 (in particular u = 0: the diagonal is taken whenever it is
           nonzero) element growth is unbounded and an exactly zero pivot column can be a legitimate numerical outcome for a
           matrix that partial pivoting factors without trouble; only u = 1 must succeed on a nonsingular matrix. */
        if (x.u < 1.0) verdict_skip("info>0 under threshold u<1 (C02 is conditional on info=0)");
        info_nonzero(&x, &F, via);
    }
    if (P_int("light", 0)) {
        /* large free-running stress cases: termination, the history monitor and the sparse well-formedness predicate only
           (the dense oracles are quadratic in n) */
        if (!is_perm(x.perm_c, n) || !is_perm(x.perm_r, n)) verdict_fail("oracle:perm_not_bijection", "perm_r or perm_c is not a permutation of 0..%d", n - 1);
        const char *bad = validate_LU(vt, n, &x.L, &x.U, 1, 1); if (bad) verdict_fail("oracle:LU_malformed", "%s", bad);
        if (x.have_opt) fx_finish_gstrf(&x);
        verdict_pass();
    }
    fx_check_structure(&x, 1);
    char msg[400];
    if (check_reconstruction(vt, &F, x.D, x.perm_r, x.perm_c, msg, sizeof msg)) verdict_fail("oracle:reconstruction_bound", "%s", msg);
    long amb = 0, off = 0, kept = 0;
    if (check_pivot_policy(vt, x.D, x.perm_r, x.perm_c, x.u, x.usepr, 0, &amb, &off, &kept, msg, sizeof msg)) verdict_fail("oracle:pivot_policy", "%s", msg);
    feat("pivot_ambiguous", amb); feat("offdiag_pivots", off);
    if (x.usepr && P_int("expect_pr_kept", 0)) { long len; double *pr = P_list("pr", &len);
        for (int i = 0; i < n; ++i) if (x.perm_r[i] != (int_t)pr[i]) verdict_fail("oracle:forced_perm_r_changed", "usepr=YES with threshold 0 and admissible order, but perm_r[%d] changed from %d to %d", i, (int)pr[i], (int)x.perm_r[i]); }
    if (x.have_opt) fx_finish_gstrf(&x);
    (void)which;
    verdict_pass();
}
void forced_pivot_enum(void);
void prop_C02(void) { if (!strcmp(P_str("mode", "case"), "forced_enum")) forced_pivot_enum(); factor_and_check(2); }
void prop_C09(void) { factor_and_check(9); }
void prop_C03(void) { g_mon_i3_strict = 1; factor_and_check(3); }
void prop_C04(void) { g_mon_strict_info = 0; factor_and_check(4); }

/* ------------------------------------------------------------------ C05: memory safety / slot bound / diagnosed overflow */
void prop_C05(void)
{
    fx_t x; fx_init(&x);
    const slu_vt *vt = x.vt; int n = x.n;
    const char *via = P_str("via", "gstrf");
    /* when the case asks for tight U / L-subscript estimates the library's diagnosed exit is an admissible outcome */
    g_exit_policy = P_int("tight_fill", 0) ? EXITPOL_ALLOW_DIAG : EXITPOL_VIOLATION;
    void *bval = NULL; SuperMatrix B;
    if (!strcmp(via, "gssv") || x.M->stype) { make_dense_B(vt, n, 1, n > 0 ? n : 1, &bval, &B, 0); fx_factor_gssv(&x, &B); }
    else fx_factor_gstrf(&x);
    csc_q F = factored_view(x.M);
    feat("info", x.info);
    fx_check_A_unchanged(&x);
    if (x.info != 0) { feat("singular", 1); if (x.info < 0 || x.info > n) verdict_fail("oracle:info_out_of_range", "info=%d with n=%d and no allocation failure injected", (int)x.info, n); verdict_pass(); }
    fx_check_structure(&x, 1);     /* includes pairwise-disjoint nzval / rowind / ucol extents */
    char msg[400];
    if (check_reconstruction(vt, &F, x.D, x.perm_r, x.perm_c, msg, sizeof msg)) verdict_fail("oracle:reconstruction_bound", "%s", msg);
    if (x.have_opt) fx_finish_gstrf(&x);
    verdict_pass();
}

/* ------------------------------------------------------------------ C06: singular matrices through the simple driver / p?gstrf */
void prop_C06(void)
{
    fx_t x; fx_init(&x);
    const slu_vt *vt = x.vt; int n = x.n;
    const char *via = P_str("via", "gssv");
    g_exit_policy = EXITPOL_VIOLATION;
    void *bval = NULL, *b0 = NULL; SuperMatrix B; int nrhs = (int)P_int("nrhs", 1), ldb = n > 0 ? n : 1; size_t bbytes = 0;
    if (!strcmp(via, "gssv") || x.M->stype) {
        make_dense_B(vt, n, nrhs, ldb, &bval, &B, 1); bbytes = vt->esize * (size_t)ldb * nrhs; b0 = hx_malloc(bbytes + 1); memcpy(b0, bval, bbytes);
        fx_factor_gssv(&x, &B);
    } else fx_factor_gstrf(&x);
    feat("info", x.info);
    fx_check_A_unchanged(&x);
    if (!(x.info > 0 && x.info <= n)) { char pc[200] = "", pr[200] = ""; size_t o1 = 0, o2 = 0;
        for (int i = 0; i < n && i < 24; ++i) { o1 += snprintf(pc + o1, sizeof pc - o1, "%d ", (int)x.perm_c[i]); o2 += snprintf(pr + o2, sizeof pr - o2, "%d ", (int)x.perm_r[i]); }
        verdict_fail("oracle:singular_not_reported", "exactly singular input but info=%d (n=%d); perm_c=[%s] perm_r=[%s]", (int)x.info, n, pc, pr); }
    if (b0 && memcmp(b0, bval, bbytes)) verdict_fail("oracle:B_modified_on_singular", "the simple driver returned info=%d but B was overwritten", (int)x.info);
    /* returned objects must be safe to inspect: C09 predicate (structure only) */
    if (!is_perm(x.perm_c, n)) verdict_fail("oracle:perm_c_not_bijection", "perm_c is not a permutation");
    if (!is_perm(x.perm_r, n)) verdict_fail("oracle:perm_r_not_bijection", "perm_r is not a permutation after a singular return");
    const char *bad = validate_LU(vt, n, &x.L, &x.U, 1, 1);
    if (bad) { char cls[64]; snprintf(cls, sizeof cls, "%s", bad); char *c = strchr(cls, ':'); if (c) *c = 0; char sig[100]; snprintf(sig, sizeof sig, "oracle:LU_malformed:%s", cls); verdict_fail(sig, "%s", bad); }
    x.D = extract_LU(vt, n, &x.L, &x.U);
    /* consistency: info-1 is the first zero on U's diagonal */
    int first0 = -1; for (int j = 0; j < n; ++j) { zq u = x.D->U[(size_t)j * n + j]; if (u.re == 0 && u.im == 0) { first0 = j; break; } }
    if (first0 + 1 != x.info) verdict_fail("oracle:info_inconsistent_with_U", "info=%d but the first exactly-zero diagonal entry of the returned U is at position %d", (int)x.info, first0 + 1);
    /* expected position for provable families: list 'zerocols' = columns of the factored matrix that are identically zero / later duplicates */
    long nz, nd; double *zc = P_list("singcols", &nz); double *dp = P_list("duppair", &nd);
    if (nz > 0 || nd == 2) { int exp = n + 1; for (long k = 0; k < nz; ++k) { int pos = x.perm_c[(int)zc[k]] + 1; if (pos < exp) exp = pos; }
        if (nd == 2) { int pa = x.perm_c[(int)dp[0]] + 1, pb = x.perm_c[(int)dp[1]] + 1; int pos = pa > pb ? pa : pb; if (pos < exp) exp = pos; }
        feat("expected_info", exp);
        if (exp != x.info) verdict_fail("oracle:info_wrong_position", "info=%d but the first singular column of A*Pc is at position %d", (int)x.info, exp); }
    /* destroy must be safe */
    if (x.have_opt) fx_finish_gstrf(&x);
    g_track = 1; Destroy_SuperNode_SCP(&x.L); Destroy_CompCol_NCP(&x.U); g_track = 0;
    feat("in_supernode", x.D->maxsup);
    verdict_pass();
}

/* ------------------------------------------------------------------ C02/C05: bounded-exhaustive forced pivot orders
 * every 0/1 pattern code in [lo,hi) of order n that has a transversal  x  every row order, forced with usepr=YES, u=0 */
static int next_perm(int *p, int n)
{
    int i = n - 2; while (i >= 0 && p[i] > p[i + 1]) --i; if (i < 0) return 0;
    int j = n - 1; while (p[j] < p[i]) --j; int t = p[i]; p[i] = p[j]; p[j] = t;
    for (int a = i + 1, b = n - 1; a < b; ++a, --b) { t = p[a]; p[a] = p[b]; p[b] = t; }
    return 1;
}
void forced_pivot_enum(void)
{
    const slu_vt *vt = vt_of(P_str("prec", "d")[0]); int n = (int)P_int("n", 3); long lo = P_int("lo", 0), hi = P_int("hi", 1L << (n * n)); int P = (int)P_int("P", 1);
    long runs = 0, honoured = 0, fallback = 0, ambiguous = 0, patterns = 0, singular = 0;
    g_exit_policy = EXITPOL_VIOLATION;
    int_t colptr[8], rowind[32]; void *vals = hx_malloc(vt->esize * 32);
    for (long code = lo; code < hi; ++code) {
        long nz = 0; for (int j = 0; j < n; ++j) { colptr[j] = (int_t)nz; for (int i = 0; i < n; ++i) if ((code >> (j * n + i)) & 1) { rowind[nz] = i;
                    uint64_t h = (uint64_t)(code * 131 + i * 17 + j * 7 + 1) * 0x9E3779B97F4A7C15ull; double v = 0.5 + (double)((h >> 20) % 3001) / 2000.0; if ((h >> 11) & 1) v = -v;
                    el_set(vt, vals, nz, v, vt->is_complex ? 0.25 * v : 0); nz++; } } colptr[n] = (int_t)nz;
        if (structural_rank(n, colptr, rowind) < n) continue;
        patterns++;
        int perm[8]; for (int i = 0; i < n; ++i) perm[i] = i;
        /* the column order the library will use for this pattern (natural order composed with its etree postorder) */
        int_t pcfin[8];
        { NCformat st0 = { (int_t)nz, vals, rowind, colptr }; SuperMatrix A0 = { SLU_NC, vt->dtype, SLU_GE, n, n, &st0 }, AC0; superlumt_options_t o0; memset(&o0, 0, sizeof o0);
          for (int i = 0; i < n; ++i) pcfin[i] = i; int_t et[8], cc[8], ps[8]; o0.refact = NO; o0.etree = et; o0.colcnt_h = cc; o0.part_super_h = ps; o0.panel_size = g_ienv[1]; o0.relax = g_ienv[2];
          LIB(sp_colorder(&A0, pcfin, &o0, &AC0)); g_track = 1; Destroy_CompCol_Permuted(&AC0); g_track = 0; }
        do {
            /* only structurally admissible row orders are forced (documented use: perm_r comes from a factorization of the same pattern) */
            { unsigned char T[8][8]; memset(T, 0, sizeof T); for (int j = 0; j < n; ++j) for (long p = colptr[j]; p < colptr[j + 1]; ++p) T[perm[rowind[p]]][pcfin[j]] = 1;
              int adm0 = 1; for (int k = 0; k < n && adm0; ++k) { if (!T[k][k]) { adm0 = 0; break; } for (int i = k + 1; i < n; ++i) if (T[i][k]) for (int j = k + 1; j < n; ++j) T[i][j] |= T[k][j]; }
              if (!adm0) { fallback++; continue; } }
            NCformat st = { (int_t)nz, vals, rowind, colptr }; SuperMatrix A = { SLU_NC, vt->dtype, SLU_GE, n, n, &st }, AC, L, U;
            int_t pc[8], pr[8], pr_in[8]; for (int i = 0; i < n; ++i) { pc[i] = pcfin[i]; pr[i] = pr_in[i] = perm[i]; }
            superlumt_options_t o; Gstat_t gs; int_t info = -777;
            sched_configure(P >= 2 ? SCHED_CONTROLLED : SCHED_NONE, P, (uint64_t)(code * 31 + runs + 1), (int)(runs % 3), 2, 50);
            sched_begin_factor(P);
            g_track = 1;
            StatAlloc(n, P, g_ienv[1], g_ienv[2], &gs); StatInit(n, P, &gs);
            vt->gstrf_init(P, DOFACT, NOTRANS, NO, g_ienv[1], g_ienv[2], 0.0, YES, 0.0, pc, pr, NULL, 0, &A, &AC, &o, &gs);
            vt->gstrf(&o, &AC, pr, &L, &U, &gs, &info);
            g_track = 0;
            sched_end_factor();
            runs++;
            if (info == 0) {
                if (!is_perm(pr, n) || !is_perm(pc, n)) verdict_fail("oracle:perm_not_bijection", "pattern %ld forced order %d%d%d%d: a permutation is not a bijection", code, perm[0], perm[1], n > 2 ? perm[2] : 0, n > 3 ? perm[3] : 0);
                const char *bad = validate_LU(vt, n, &L, &U, 1, 1); if (bad) verdict_fail("oracle:LU_malformed", "pattern %ld: %s", code, bad);
                dense_lu *D = extract_LU(vt, n, &L, &U);
                csc_q F; F.n = n; F.ptr = colptr; F.ind = rowind; zq fv[32]; for (long p = 0; p < nz; ++p) el_get(vt, vals, p, &fv[p].re, &fv[p].im); F.val = fv;
                char msg[300]; if (check_reconstruction(vt, &F, D, pr, pc, msg, sizeof msg)) verdict_fail("oracle:reconstruction_bound", "pattern %ld forced order: %s", code, msg);
                /* admissibility of the forced order for the final column order, with fill; and a numerical reference elimination */
                zq S[8][8]; memset(S, 0, sizeof S);
                for (int j = 0; j < n; ++j) for (long p = colptr[j]; p < colptr[j + 1]; ++p) S[pr_in[rowind[p]]][pc[j]] = fv[p];
                int adm = 1, amb = 0;
                for (int k = 0; k < n && adm; ++k) { ld pk = zq_abs(S[k][k]), mx = 0; for (int i = k; i < n; ++i) { ld a = zq_abs(S[i][k]); if (a > mx) mx = a; }
                    if (pk == 0) { adm = 0; break; } if (pk < 1e-9L * mx) amb = 1;
                    for (int i = k + 1; i < n; ++i) { if (S[i][k].re == 0 && S[i][k].im == 0) continue; zq l = zq_div(S[i][k], S[k][k]); for (int j = k + 1; j < n; ++j) S[i][j] = zq_sub(S[i][j], zq_mul(l, S[k][j])); } }
                int same = 1; for (int i = 0; i < n; ++i) if (pr[i] != pr_in[i]) same = 0;
                if (adm && amb) ambiguous++;
                else if (adm) { if (!same) verdict_fail("C02:forced_pivot_order_not_honoured", "pattern %ld (n=%d): usepr=YES, u=0 and every forced pivot is nonzero, but perm_r came back changed", code, n); honoured++; }
                else ambiguous++;   /* the library re-ordered the columns again: the pre-computed admissibility does not apply */
                free_dense_lu(D);
            } else { singular++; if (info < 0 || info > n) verdict_fail("oracle:info_out_of_range", "pattern %ld: info=%d", code, (int)info); }
            g_track = 1; vt->finalize(&o, &AC); Destroy_SuperNode_SCP(&L); Destroy_CompCol_NCP(&U); StatFree(&gs); g_track = 0;
        } while (next_perm(perm, n));
    }
    feat("enum_runs", runs); feat("enum_patterns", patterns); feat("enum_honoured", honoured); feat("enum_fallback", fallback); feat("enum_ambiguous", ambiguous); feat("enum_singular", singular);
    verdict_pass();
}
