/* props_b.c — expert driver p?gssvx: C07 (solve, all options), C11 (equilibration), C12 (rcond, growth), C13 (berr/ferr),
 * C16 (symmetric mode).  One driver call, all applicable assertions; each failure has its own signature. */
#define _GNU_SOURCE
#include "slu_mt_ddefs.h"
#include "fx.h"
#include <math.h>
#include <float.h>

#include "xd.h"

#define SENT 1.2345e3

/* factored matrix with the values as stored NOW (after equilibration), unlike factored_view() whose NC variant shares the original copy */
static csc_q factored_view_current(hx_matrix *M)
{
    csc_q F; int n = M->n; long nnz = M->nnz; F.n = n;
    if (M->stype) return factored_view(M);
    F.ptr = M->ptr; F.ind = M->ind; F.val = hx_malloc(sizeof(zq) * (nnz ? nnz : 1));
    for (long p = 0; p < nnz; ++p) el_get(M->vt, M->val, p, &F.val[p].re, &F.val[p].im);
    return F;
}
static ld cmag(const slu_vt *vt, zq a) { return vt->is_complex ? zq_abs1(a) : fabsl(a.re); }

void xd_setup(xd_t *d)
{
    memset(d, 0, sizeof *d);
    fx_init(&d->x);
    const slu_vt *vt = d->x.vt; int n = d->x.n;
    if (vt->is_complex) hx_ctx_add("complex");
    d->nrhs = (int)P_int("nrhs", 1); d->ldb = (int)P_int("ldb", n); if (d->ldb < n) d->ldb = n; if (d->ldb < 1) d->ldb = 1;
    d->ldx = (int)P_int("ldx", n); if (d->ldx < n) d->ldx = n; if (d->ldx < 1) d->ldx = 1;
    make_dense_B(vt, n, d->nrhs, d->ldb, &d->bval, &d->B, 1);
    make_dense_B(vt, n, d->nrhs, d->ldx, &d->xval, &d->X, 0);
    for (long k = 0; k < (long)d->ldx * d->nrhs; ++k) el_set(vt, d->xval, k, SENT, vt->is_complex ? -SENT : 0);
    size_t bb = vt->esize * (size_t)d->ldb * (d->nrhs > 0 ? d->nrhs : 0);
    d->b0 = hx_malloc(bb + 1); memcpy(d->b0, d->bval, bb);
    d->a0 = hx_malloc(vt->esize * (d->x.M->nnz + 1)); memcpy(d->a0, d->x.M->val, vt->esize * d->x.M->nnz);
    d->R = hx_malloc(vt->rsize * (n + 1)); d->C = hx_malloc(vt->rsize * (n + 1));
    for (int i = 0; i < n; ++i) { rs_set(vt, d->R, i, SENT); rs_set(vt, d->C, i, SENT); }
    d->ferr = hx_malloc(vt->rsize * (d->nrhs + 1)); d->berr = hx_malloc(vt->rsize * (d->nrhs + 1));
    for (int i = 0; i < d->nrhs; ++i) { rs_set(vt, d->ferr, i, SENT); rs_set(vt, d->berr, i, SENT); }
    d->rpg = SENT; d->rcond = SENT; d->equed = NOEQUIL;
}

fact_t parse_fact(const char *s) { return !strcmp(s, "EQUILIBRATE") ? EQUILIBRATE : !strcmp(s, "FACTORED") ? FACTORED : DOFACT; }
trans_t parse_trans(const char *s) { return s[0] == 'T' ? TRANS : s[0] == 'C' ? CONJ : NOTRANS; }

void xd_call(xd_t *d, fact_t fact, trans_t trans, yes_no_t refact)
{
    fx_t *x = &d->x;
    d->fact = fact; d->trans = trans;
    fx_options(x, &d->opt, fact, trans, refact);
    if (trans == CONJ && x->vt->is_complex) hx_ctx_add("complex_conj");
    int t0 = count_tasks();
    sched_begin_factor(x->P);
    g_phase = "gssvx";
    LIB(x->vt->gssvx(x->P, &d->opt, &x->M->A, x->perm_c, x->perm_r, &d->equed, d->R, d->C, &x->L, &x->U, &d->B, &d->X,
                     &d->rpg, &d->rcond, d->ferr, d->berr, &d->mu, &d->info));
    sched_end_factor();
    int t1 = tasks_after(t0);
    if (t0 != t1) verdict_fail("C04:thread_count_changed", "threads before the expert driver call %d, after %d", t0, t1);
    x->info = d->info; x->have_LU = 1;
}

/* dense n x n matrix (column major, zq) of the mathematical A from stored values `val` (same pattern as M) */
static zq *dense_from(hx_matrix *M, const void *val)
{
    int n = M->n; zq *D = hx_calloc((size_t)n * n + 1, sizeof(zq));
    int nmaj = M->stype ? M->m : M->n;
    for (int maj = 0; maj < nmaj; ++maj) for (long p = M->ptr[maj]; p < M->ptr[maj + 1]; ++p) {
        int i = M->stype ? maj : M->ind[p], j = M->stype ? M->ind[p] : maj; zq v; el_get(M->vt, val, p, &v.re, &v.im);
        D[(size_t)j * n + i] = zq_add(D[(size_t)j * n + i], v); }
    return D;
}
/* in-place inverse by Gauss-Jordan with partial pivoting in extended precision; returns 0 if singular */
static int dense_inverse(int n, zq *A, zq *Inv)
{
    for (size_t k = 0; k < (size_t)n * n; ++k) { Inv[k].re = Inv[k].im = 0; }
    for (int i = 0; i < n; ++i) Inv[(size_t)i * n + i].re = 1;
    for (int k = 0; k < n; ++k) {
        int piv = k; ld best = zq_abs(A[(size_t)k * n + k]);
        for (int i = k + 1; i < n; ++i) { ld a = zq_abs(A[(size_t)k * n + i]); if (a > best) { best = a; piv = i; } }
        if (best == 0) return 0;
        if (piv != k) for (int j = 0; j < n; ++j) { zq t = A[(size_t)j * n + k]; A[(size_t)j * n + k] = A[(size_t)j * n + piv]; A[(size_t)j * n + piv] = t;
            t = Inv[(size_t)j * n + k]; Inv[(size_t)j * n + k] = Inv[(size_t)j * n + piv]; Inv[(size_t)j * n + piv] = t; }
        zq p = A[(size_t)k * n + k];
        for (int j = 0; j < n; ++j) { A[(size_t)j * n + k] = zq_div(A[(size_t)j * n + k], p); Inv[(size_t)j * n + k] = zq_div(Inv[(size_t)j * n + k], p); }
        for (int i = 0; i < n; ++i) { if (i == k) continue; zq f = A[(size_t)k * n + i]; if (f.re == 0 && f.im == 0) continue;
            for (int j = 0; j < n; ++j) { A[(size_t)j * n + i] = zq_sub(A[(size_t)j * n + i], zq_mul(f, A[(size_t)j * n + k]));
                Inv[(size_t)j * n + i] = zq_sub(Inv[(size_t)j * n + i], zq_mul(f, Inv[(size_t)j * n + k])); } }
    }
    return 1;
}
static ld norm1(int n, const zq *A) { ld m = 0; for (int j = 0; j < n; ++j) { ld s = 0; for (int i = 0; i < n; ++i) s += zq_abs(A[(size_t)j * n + i]); if (s > m) m = s; } return m; }
static ld normI(int n, const zq *A) { ld m = 0; for (int i = 0; i < n; ++i) { ld s = 0; for (int j = 0; j < n; ++j) s += zq_abs(A[(size_t)j * n + i]); if (s > m) m = s; } return m; }

/* op applied to dense: y = op(A) x */
static void dense_apply(int n, const zq *A, int op, const zq *x, zq *y)
{
    for (int i = 0; i < n; ++i) { y[i].re = y[i].im = 0; }
    for (int j = 0; j < n; ++j) for (int i = 0; i < n; ++i) { zq a = A[(size_t)j * n + i]; if (a.re == 0 && a.im == 0) continue;
        if (op == 0) y[i] = zq_add(y[i], zq_mul(a, x[j])); else { if (op == 2) a.im = -a.im; y[j] = zq_add(y[j], zq_mul(a, x[i])); } }
}

/* reference solution of op(A) x = b: start from inv(A) b in extended precision, then refine with residuals accumulated in
   __float128 (the entries of A and b are working-precision numbers, so the residual is exact to ~1e-34 relative).  *unc returns the
   relative size of the last correction: a bound on how far the result still is from the exact solution. */
typedef struct { __float128 re, im; } zqq;
static void refine_exact(int n, const zq *A, const zq *Inv, int op, const zq *b, zq *x, ld *unc)
{
    zqq *X = hx_malloc(sizeof(zqq) * (n + 1)), *R = hx_malloc(sizeof(zqq) * (n + 1)); zq *r = hx_malloc(sizeof(zq) * (n + 1)), *dl = hx_malloc(sizeof(zq) * (n + 1));
    for (int i = 0; i < n; ++i) { X[i].re = x[i].re; X[i].im = x[i].im; }
    ld last = INFINITY;
    for (int it = 0; it < 5; ++it) {
        for (int i = 0; i < n; ++i) { R[i].re = b[i].re; R[i].im = b[i].im; }
        for (int j = 0; j < n; ++j) for (int i = 0; i < n; ++i) { zq a = A[(size_t)j * n + i]; if (a.re == 0 && a.im == 0) continue;
            __float128 ar = a.re, ai = (op == 2 ? -a.im : a.im); int tgt = op == 0 ? i : j, src = op == 0 ? j : i;
            R[tgt].re -= ar * X[src].re - ai * X[src].im; R[tgt].im -= ar * X[src].im + ai * X[src].re; }
        for (int i = 0; i < n; ++i) { r[i].re = (ld)R[i].re; r[i].im = (ld)R[i].im; }
        dense_apply(n, Inv, op, r, dl);
        ld dm = 0, xm = 0;
        for (int i = 0; i < n; ++i) { X[i].re += dl[i].re; X[i].im += dl[i].im; ld a = zq_abs(dl[i]); if (a > dm) dm = a; zq xv = { (ld)X[i].re, (ld)X[i].im }; ld c = zq_abs(xv); if (c > xm) xm = c; }
        last = xm > 0 ? dm / xm : 0;
        if (last < 1e-25L) break;
    }
    for (int i = 0; i < n; ++i) { x[i].re = (ld)X[i].re; x[i].im = (ld)X[i].im; }
    *unc = last;
    hx_free(X); hx_free(R); hx_free(r); hx_free(dl);
}

static void check_scaling_rule(xd_t *d, int *rowequ_, int *colequ_)
{
    fx_t *x = &d->x; const slu_vt *vt = x->vt; hx_matrix *M = x->M; int n = x->n; ld eps = vt->eps * (vt->is_complex ? 4 : 1);
    int rowequ = d->equed == ROW || d->equed == BOTH, colequ = d->equed == COL || d->equed == BOTH;
    *rowequ_ = rowequ; *colequ_ = colequ;
    if ((int)d->equed < 0 || (int)d->equed > 3) verdict_fail("C11:equed_invalid", "equed=%d", (int)d->equed);
    if (d->fact == DOFACT && d->equed != NOEQUIL) verdict_fail("C11:equed_without_equilibrate", "fact=DOFACT but equed=%d", (int)d->equed);
    feat("equed", d->equed);
    /* R scales rows of AA, C columns of AA, AA = A (NC) or A^T (NR): for stored entry (i,j) of A: NC r[i],c[j]; NR r[j],c[i] */
    int nmaj = M->stype ? M->m : M->n;
    if (d->fact != FACTORED) {
        for (int i = 0; i < n; ++i) {
            if (rowequ) { double r = rs_get(vt, d->R, i); if (!(r > 0) || !isfinite(r)) verdict_fail("C11:scale_factor_not_positive", "R[%d]=%g", i, r); }
            if (colequ) { double c = rs_get(vt, d->C, i); if (!(c > 0) || !isfinite(c)) verdict_fail("C11:scale_factor_not_positive", "C[%d]=%g", i, c); }
        }
        for (int maj = 0; maj < nmaj; ++maj) for (long p = M->ptr[maj]; p < M->ptr[maj + 1]; ++p) {
            int i = M->stype ? maj : M->ind[p], j = M->stype ? M->ind[p] : maj;
            int ri = M->stype ? j : i, cj = M->stype ? i : j;
            zq a0, a1; el_get(vt, d->a0, p, &a0.re, &a0.im); el_get(vt, M->val, p, &a1.re, &a1.im);
            if (d->equed == NOEQUIL) { if (a0.re != a1.re || a0.im != a1.im) verdict_fail("C11:A_changed_with_NOEQUIL", "equed=NOEQUIL but A(%d,%d) changed from %.17Lg to %.17Lg", i, j, a0.re, a1.re); continue; }
            ld s = 1; if (rowequ) s *= rs_get(vt, d->R, ri); if (colequ) s *= rs_get(vt, d->C, cj);
            zq ref = { a0.re * s, a0.im * s };
            ld tol = 3 * eps * zq_abs(ref) + (vt->is_single ? 0x1p-140L : 0x1p-1060L);
            if (zq_abs(zq_sub(a1, ref)) > tol) verdict_fail("C11:A_not_scaled_as_reported", "equed=%d: A(%d,%d) = %.10Lg, expected in*R^a*C^b = %.10Lg", (int)d->equed, i, j, a1.re, ref.re);
        }
    } else {
        if (memcmp(d->a0, M->val, vt->esize * M->nnz)) verdict_fail("C08:A_modified_with_FACTORED", "fact=FACTORED but A's values changed");
    }
    /* B: scaled by R if effective notrans and rowequ; by C if effective trans and colequ */
    int notran = (d->trans == NOTRANS); if (M->stype) notran = !notran;
    for (int k = 0; k < d->nrhs; ++k) for (int i = 0; i < d->ldb; ++i) {
        zq b0, b1; el_get(vt, d->b0, (long)k * d->ldb + i, &b0.re, &b0.im); el_get(vt, d->bval, (long)k * d->ldb + i, &b1.re, &b1.im);
        ld s = 1; int scaled = 0;
        if (i < n) { if (notran && rowequ) { s = rs_get(vt, d->R, i); scaled = 1; } else if (!notran && colequ) { s = rs_get(vt, d->C, i); scaled = 1; } }
        if (!scaled) { if (b0.re != b1.re || b0.im != b1.im) verdict_fail(i < n ? "C11:B_changed_without_scaling" : "oracle:B_padding_modified", "B(%d,%d) changed from %.17Lg to %.17Lg although equed=%d trans=%d says it is not scaled", i, k, b0.re, b1.re, (int)d->equed, (int)d->trans); }
        else { zq ref = { b0.re * s, b0.im * s }; if (zq_abs(zq_sub(b1, ref)) > 2 * eps * zq_abs(ref) + 0x1p-1060L) verdict_fail("C11:B_not_scaled_as_reported", "B(%d,%d)=%.10Lg expected %.10Lg (equed=%d trans=%d)", i, k, b1.re, ref.re, (int)d->equed, (int)d->trans); }
    }
}

/* pivot growth recomputed from returned factors and the (equilibrated) matrix as the library stores it */
static void check_pivot_growth(xd_t *d, int ncols)
{
    fx_t *x = &d->x; const slu_vt *vt = x->vt; int n = x->n; csc_q F = factored_view_current(x->M);  /* values after equilibration */
    ld rpg = 1 / (vt->is_single ? (ld)FLT_MIN : (ld)DBL_MIN);
    int *ipc = hx_malloc(sizeof(int) * (n + 1)); for (int j = 0; j < n; ++j) ipc[x->perm_c[j]] = j;
    for (int j = 0; j < ncols; ++j) {
        ld maxa = 0, maxu = 0; int oc = ipc[j];
        for (long p = F.ptr[oc]; p < F.ptr[oc + 1]; ++p) { ld a = cmag(vt, F.val[p]); if (a > maxa) maxa = a; }
        for (int i = 0; i <= j; ++i) { ld u = cmag(vt, x->D->U[(size_t)j * n + i]); if (u > maxu) maxu = u; }
        ld q = (maxu == 0) ? 1 : maxa / maxu; if (q < rpg) rpg = q;
    }
    hx_free(ipc);
    feat("rpg_ref", (double)rpg); feat("rpg", d->rpg);
    ld tol = 8 * vt->eps * fabsl(rpg);
    if (!(fabsl((ld)d->rpg - rpg) <= tol)) verdict_fail("C12:pivot_growth_mismatch", "reciprocal pivot growth returned %.10g, recomputed from the returned factors over %d columns %.10Lg", d->rpg, ncols, rpg);
}

void xd_check(xd_t *d, int want)
{
    fx_t *x = &d->x; const slu_vt *vt = x->vt; int n = x->n; hx_matrix *M = x->M;
    ld eps = vt->eps, ceps = eps * (vt->is_complex ? 8 : 1);
    feat("info", d->info); feat("trans", d->trans); feat("fact", d->fact);
    if (d->info < 0) verdict_fail("oracle:info_negative_on_valid_call", "info=%d (xerbla %s pos %d)", (int)d->info, g_xerbla_name, g_xerbla_pos);
    if (g_xerbla_calls) verdict_fail("C07:xerbla_on_valid_call", "error handler called by %s for argument %d during a valid expert-driver call (info=%d)", g_xerbla_name, g_xerbla_pos, (int)d->info);
    int rowequ, colequ;
    check_scaling_rule(d, &rowequ, &colequ);
    if (!is_perm(x->perm_c, n)) verdict_fail("oracle:perm_c_not_bijection", "perm_c not a permutation");
    /* reference data on the ORIGINAL system */
    zq *A0 = hx_calloc((size_t)n * n + 1, sizeof(zq));     /* the ORIGINAL (never scaled) mathematical A */
    for (int j = 0; j < n; ++j) for (long p = M->cptr[j]; p < M->cptr[j + 1]; ++p) A0[(size_t)j * n + M->cind[p]] = zq_add(A0[(size_t)j * n + M->cind[p]], M->cval[p]);
    zq *T = hx_malloc(sizeof(zq) * ((size_t)n * n + 1)), *Inv = hx_malloc(sizeof(zq) * ((size_t)n * n + 1));
    if (d->info > 0 && d->info <= n) {
        /* singular return: X untouched, B only scaled (checked above) */
        for (long k = 0; k < (long)d->ldx * d->nrhs; ++k) { zq v; el_get(vt, d->xval, k, &v.re, &v.im); if (v.re != (ld)(vt->is_single ? (float)SENT : SENT)) verdict_fail("C06:X_written_on_singular", "info=%d but X was written", (int)d->info); }
        memcpy(T, A0, sizeof(zq) * (size_t)n * n);
        csc_q F = factored_view(M); ld g, mp;
        if (ref_nonsingular(vt, &F, &g, &mp) && x->u >= 1.0 && P_int("expect_nonsingular", 1)) verdict_fail("oracle:info_nonzero", "expert driver returned info=%d for a matrix the reference factors without trouble (min pivot/amax %.2Le)", (int)d->info, mp);
        feat("singular", 1);
        if (is_perm(x->perm_r, n) && !validate_LU(vt, n, &x->L, &x->U, 1, 0)) { x->D = extract_LU(vt, n, &x->L, &x->U); check_pivot_growth(d, (int)d->info); }
        verdict_pass();
    }
    if (d->info > n + 1) verdict_fail("oracle:info_memory_without_fault", "info=%d > n+1 without any injected allocation failure", (int)d->info);
    fx_check_structure(x, 1);
    /* equilibrated matrix as stored now, dense */
    zq *Aeq = dense_from(M, M->val);
    memcpy(T, Aeq, sizeof(zq) * (size_t)n * n);
    int inv_ok = dense_inverse(n, T, Inv);
    ld kappa1 = INFINITY, kappaI = INFINITY;
    if (inv_ok) { kappa1 = norm1(n, Aeq) * norm1(n, Inv); kappaI = normI(n, Aeq) * normI(n, Inv); }
    ld growth = 1; { ld ma = 0, mlu = 0; for (size_t k = 0; k < (size_t)n * n; ++k) { ld a = zq_abs(Aeq[k]); if (a > ma) ma = a; }
        for (int j = 0; j < n; ++j) for (int i = 0; i <= j; ++i) { ld u = zq_abs(x->D->U[(size_t)j * n + i]); if (u > mlu) mlu = u; } if (ma > 0 && mlu > ma) growth = mlu / ma; }
    ld kappa = kappa1 > kappaI ? kappa1 : kappaI;
    feat("kappa", (double)kappa); feat("growth", (double)growth);
    int wellcond = inv_ok && kappa * growth * n * ceps <= 1e-3L;
    feat("wellcond", wellcond);
    /* effective op on the mathematical A */
    int op = d->trans == NOTRANS ? 0 : d->trans == TRANS ? 1 : 2;
    /* ---- factorization consistency on the equilibrated matrix (C02) */
    { csc_q F = factored_view_current(M); char msg[400];
      if (check_reconstruction(vt, &F, x->D, x->perm_r, x->perm_c, msg, sizeof msg)) verdict_fail("oracle:reconstruction_bound", "%s", msg); }
    /* ---- pivot growth (C12) */
    check_pivot_growth(d, n);
    /* ---- rcond (C12): norm is '1' when the effective solve on AA is not transposed */
    { int notranAA = (d->trans == NOTRANS); if (M->stype) notranAA = !notranAA;
      /* AA = A (NC) or A^T (NR); Aeq above is the mathematical A (scaled).  1-norm of AA: NC -> norm1(A), NR -> normI(A) */
      ld anorm, invnorm, lowinv;
      int use1_on_A = notranAA ? !M->stype : M->stype;        /* which norm of the mathematical (scaled) A is meant */
      if (inv_ok) {
          anorm = use1_on_A ? norm1(n, Aeq) : normI(n, Aeq); invnorm = use1_on_A ? norm1(n, Inv) : normI(n, Inv);
          /* lower bound of the estimator: first iterate e/n */
          zq *e = hx_malloc(sizeof(zq) * (n + 1)), *y = hx_malloc(sizeof(zq) * (n + 1)); for (int i = 0; i < n; ++i) { e[i].re = 1.0L / n; e[i].im = 0; }
          ld l1 = 0, l2 = 0; dense_apply(n, Inv, 0, e, y); for (int i = 0; i < n; ++i) l1 += zq_abs(y[i]);
          dense_apply(n, Inv, 1, e, y); for (int i = 0; i < n; ++i) l2 += zq_abs(y[i]);
          lowinv = l1 < l2 ? l1 : l2; hx_free(e); hx_free(y);
          ld delta = 0.05L + 10 * n * ceps * kappa * growth;
          ld lo = (1 - delta) / (anorm * invnorm), hi = (1 + delta) / (anorm * lowinv);
          feat("rcond", d->rcond); feat("rcond_lo", (double)lo); feat("rcond_hi", (double)hi);
          if (delta < 0.5L && kappa < 1e-2L / ceps) {
              if (!((ld)d->rcond >= lo)) verdict_fail("C12:rcond_below_true_reciprocal_condition", "rcond=%.6g < (1-d)/(||A||*||inv(A)||) = %.6Lg (norm %s of the user's matrix, kappa=%.3Lg)", d->rcond, lo, use1_on_A ? "1" : "inf", kappa);
              if (!((ld)d->rcond <= hi)) verdict_fail("C12:rcond_above_estimator_upper_bound", "rcond=%.6g > (1+d)/(||A||*||inv(A) e/n||) = %.6Lg (norm %s, kappa=%.3Lg)", d->rcond, hi, use1_on_A ? "1" : "inf", kappa);
              feat("rcond_checked", 1);
              /* does the other norm give a clearly different answer? (non-triviality of the norm selection) */
              ld other = 1 / ((use1_on_A ? normI(n, Aeq) : norm1(n, Aeq)) * (use1_on_A ? normI(n, Inv) : norm1(n, Inv)));
              feat("norm_ratio", (double)(other * anorm * invnorm));
          }
      }
      ld epsE = vt->is_single ? 0x1p-24L : 0x1p-53L;
      if ((ld)d->rcond < epsE / 4 && d->info != n + 1) verdict_fail("C12:info_not_n_plus_1", "rcond=%.3g is below machine epsilon but info=%d", d->rcond, (int)d->info);
      if ((ld)d->rcond > epsE * 4 && d->info == n + 1) verdict_fail("C12:info_n_plus_1_spurious", "rcond=%.3g is above machine epsilon but info=n+1", d->rcond);
    }
    /* ---- X written, finite */
    for (int k = 0; k < d->nrhs; ++k) for (int i = 0; i < n; ++i) { zq v; el_get(vt, d->xval, (long)k * d->ldx + i, &v.re, &v.im);
        if (!isfinite((double)v.re) || !isfinite((double)v.im)) { if (wellcond) verdict_fail("C07:X_not_finite", "X(%d,%d) not finite", i, k); else verdict_skip("non-finite X on an ill-conditioned system"); } }
    for (int k = 0; k < d->nrhs; ++k) for (int i = n; i < d->ldx; ++i) { zq v; el_get(vt, d->xval, (long)k * d->ldx + i, &v.re, &v.im); if (v.re != (ld)(vt->is_single ? (float)SENT : SENT)) verdict_fail("oracle:X_padding_modified", "row %d >= n of X was written", i); }
    /* ---- backward error of the returned X against the ORIGINAL system (C07) and berr truthfulness (C13) */
    csc_q F0; { /* original mathematical A as CSC */ F0.n = n; F0.ptr = M->cptr; F0.ind = M->cind; F0.val = M->cval; }
    long nzrow = 0; { int *cnt = hx_calloc(n + 1, sizeof(int)); for (long p = 0; p < M->nnz; ++p) { cnt[F0.ind[p]]++; } for (int j = 0; j < n; ++j) { int c = (int)(F0.ptr[j + 1] - F0.ptr[j]); if (c > nzrow) nzrow = c; if (cnt[j] > nzrow) nzrow = cnt[j]; } hx_free(cnt); }
    ld worst_berr = 0;
    for (int k = 0; k < d->nrhs; ++k) {
        ld w = backward_error(vt, &F0, op, d->xval, d->ldx, d->b0, d->ldb, k);
        int ntiny = 0; ld wadd = backward_error_add(vt, &F0, op, d->xval, d->ldx, d->b0, d->ldb, k, &ntiny);
        if (ntiny) feat_add("berr_zero_denominator_rows", ntiny);
        if (w > worst_berr) worst_berr = w;
        double br = rs_get(vt, d->berr, k), fr = rs_get(vt, d->ferr, k);
        if (wellcond) {
            if (!(wadd <= 40 * (n + 1) * ceps)) verdict_fail("C07:backward_error_original_system", "rhs %d: componentwise backward error of the returned X against the original op(A)X=B is %.3Le > 40(n+1)eps = %.3Le (trans=%d equed=%d stype=%s fact=%d, kappa=%.2Lg)", k, wadd, 40 * (n + 1) * ceps, (int)d->trans, (int)d->equed, M->stype ? "NR" : "NC", (int)d->fact, kappa);
        }
        if (want) {
            if (br == SENT || fr == SENT) verdict_fail("C13:berr_ferr_not_written", "berr/ferr of rhs %d not written (berr=%g ferr=%g)", k, br, fr);
            if (isfinite((double)w) && inv_ok && kappa < 1e-2L / ceps) {
                ld tolb = (nzrow + 4) * ceps + 4 * ceps;
                if (!(fabsl((ld)br - w) <= tolb + 0.5L * w)) verdict_fail("C13:berr_not_truthful", "rhs %d: returned berr=%.3e but the true componentwise backward error of the returned X is %.3Le (tolerance %.2Le)", k, br, w, tolb);
                if (kappa < 1 / sqrtl(eps) && !ntiny && !((ld)br <= 40 * (n + 1) * ceps)) verdict_fail("C13:berr_large_on_well_conditioned", "rhs %d: berr=%.3e > 40(n+1)eps with kappa=%.2Lg", k, br, kappa);
            }
        }
    }
    feat("berr_true_worst", (double)worst_berr);
    /* ---- forward error against the exact solution of the original system (C13) */
    if (want && inv_ok && kappa < 0.1L / ceps && d->nrhs > 0) {
        memcpy(T, A0, sizeof(zq) * (size_t)n * n);
        zq *Inv0 = Inv; if (dense_inverse(n, T, Inv0)) {
            zq *b = hx_malloc(sizeof(zq) * (n + 1)), *xt = hx_malloc(sizeof(zq) * (n + 1));
            for (int k = 0; k < d->nrhs; ++k) {
                for (int i = 0; i < n; ++i) el_get(vt, d->b0, (long)k * d->ldb + i, &b[i].re, &b[i].im);
                /* x_true = op(A)^{-1} b = op(inv(A)) b */
                dense_apply(n, Inv0, op, b, xt);
                ld runc = 1; refine_exact(n, A0, Inv0, op, b, xt, &runc);
                ld err = 0, xm = 0; for (int i = 0; i < n; ++i) { zq v; el_get(vt, d->xval, (long)k * d->ldx + i, &v.re, &v.im); ld e = cmag(vt, zq_sub(v, xt[i])); if (e > err) err = e; ld a = cmag(vt, v); if (a > xm) xm = a; }
                double fr = rs_get(vt, d->ferr, k);
                feat("ferr", fr); feat("ferr_true", xm > 0 ? (double)(err / xm) : 0);
                /* uncertainty of the reference solution itself */
                ld ref_unc = 16 * runc + 8 * (ld)n * LDBL_EPSILON;      /* after the quad-precision refinement (was ~ n*kappa*LDBL_EPSILON) */
                if (xm > 0 && !(err / xm <= 40 * (ld)fr + 4 * ceps + ref_unc)) verdict_fail("C13:ferr_does_not_dominate", "rhs %d: true relative error %.3Le exceeds 40*ferr = %.3Le (kappa=%.2Lg, trans=%d equed=%d)", k, err / xm, 40 * (ld)fr, kappa, (int)d->trans, (int)d->equed);
            }
            hx_free(b); hx_free(xt);
        }
    }
    hx_free(A0); hx_free(Aeq); hx_free(T); hx_free(Inv);
}

void xd_first(xd_t *d)
{
    xd_setup(d);
    g_exit_policy = EXITPOL_VIOLATION;
    fact_t fact = parse_fact(P_str("fact", "DOFACT")); trans_t trans = parse_trans(P_str("trans", "N"));
    if (fact == FACTORED) {
        /* two-step history: factor (with the first-step option), then solve with the supplied factors and a fresh B */
        fact_t f1 = parse_fact(P_str("fact1", "EQUILIBRATE"));
        xd_call(d, f1, parse_trans(P_str("trans1", "N")), NO);
        if (d->info != 0 && d->info != d->x.n + 1) verdict_skip("first step of a FACTORED history returned info=%d", (int)d->info);
        /* new right-hand side; A keeps its (possibly equilibrated) values: that is what FACTORED documents */
        const slu_vt *vt = d->x.vt; int n = d->x.n;
        for (int k = 0; k < d->nrhs; ++k) for (int i = 0; i < n; ++i) { zq v; el_get(vt, d->b0, (long)k * d->ldb + i, &v.re, &v.im); el_set(vt, d->bval, (long)k * d->ldb + i, (double)(0.5 * v.re + 0.25 * (i % 3)), vt->is_complex ? (double)(0.5 * v.im - 0.125) : 0.0); }
        memcpy(d->b0, d->bval, vt->esize * (size_t)d->ldb * d->nrhs);
        memcpy(d->a0, d->x.M->val, vt->esize * d->x.M->nnz);
        uint64_t hl = hash_LU(vt, &d->x.L, &d->x.U);
        int_t *pr = hx_malloc(sizeof(int_t) * (n + 1)), *pc = hx_malloc(sizeof(int_t) * (n + 1)); memcpy(pr, d->x.perm_r, sizeof(int_t) * n); memcpy(pc, d->x.perm_c, sizeof(int_t) * n);
        for (long k = 0; k < (long)d->ldx * d->nrhs; ++k) el_set(vt, d->xval, k, SENT, vt->is_complex ? -SENT : 0);
        free_dense_lu(d->x.D); d->x.D = NULL;
        /* keep the option arrays; FACTORED does not touch them */
        superlumt_options_t keep = d->opt;
        xd_call(d, FACTORED, trans, NO);
        (void)keep;
        if (hash_LU(vt, &d->x.L, &d->x.U) != hl) verdict_fail("C08:factors_modified_by_FACTORED_solve", "L or U changed during a solve that only reuses the factors");
        if (memcmp(pr, d->x.perm_r, sizeof(int_t) * n) || memcmp(pc, d->x.perm_c, sizeof(int_t) * n)) verdict_fail("C08:perm_modified_by_FACTORED_solve", "perm_r or perm_c changed during a FACTORED solve");
        feat("factored_history", 1);
    } else {
        xd_call(d, fact, trans, NO);
    }
}

int check_sp_trsv(fx_t *x, char *msg, size_t mn, char *sigout, size_t sn);
void prop_C07(void) { xd_t d; xd_first(&d); xd_check(&d, 1); verdict_pass(); }
void prop_C12(void) { xd_t d; xd_first(&d);
    if (P_int("trsv_probe", 0) == 2) { fx_check_structure(&d.x, 1); char msg[300], sg[80]; if (check_sp_trsv(&d.x, msg, sizeof msg, sg, sizeof sg)) verdict_fail(sg, "%s", msg); verdict_pass(); }
    xd_check(&d, 1);
    if (P_int("trsv_probe", 0) && d.x.D) { char msg[300], sg[80]; if (check_sp_trsv(&d.x, msg, sizeof msg, sg, sizeof sg)) verdict_fail(sg, "%s", msg); }
    verdict_pass(); }
void prop_C13(void) { xd_t d; xd_first(&d); xd_check(&d, 1); verdict_pass(); }

/* ------------------------------------------------------------------ C16 symmetric mode */
void prop_C16(void)
{
    xd_t d; xd_first(&d);
    fx_t *x = &d.x; int n = x->n;
    xd_check(&d, 1);
    if (d.info == 0 || d.info == n + 1) {
        for (int i = 0; i < n; ++i) if (x->perm_r[i] != x->perm_c[i]) verdict_fail("C16:pivot_not_diagonal", "symmetric mode on a diagonally dominant matrix: perm_r[%d]=%d but perm_c[%d]=%d", i, (int)x->perm_r[i], i, (int)x->perm_c[i]);
        char msg[300]; long amb, off, kept;
        if (check_pivot_policy(x->vt, x->D, x->perm_r, x->perm_c, x->u, 0, 1, &amb, &off, &kept, msg, sizeof msg)) verdict_fail("C16:pivot_policy", "%s", msg);
        feat("offdiag_pivots", off);
    }
    verdict_pass();
}

/* ------------------------------------------------------------------ C11 direct: ?gsequ + ?laqgs on an m x n matrix */
void prop_C11(void)
{
    if (strcmp(P_str("mode", "direct"), "direct")) { xd_t d; xd_first(&d); xd_check(&d, 1); verdict_pass(); }
    const slu_vt *vt = vt_of(P_str("prec", "d")[0]);
    hx_matrix *M = build_matrix(vt); int m = M->m, n = M->n;
    if (M->stype) verdict_skip("direct equilibration routines take NC");
    features_of_matrix(M);
    void *R = hx_malloc(vt->rsize * (m + 1)), *C = hx_malloc(vt->rsize * (n + 1));
    for (int i = 0; i < m; ++i) rs_set(vt, R, i, SENT); for (int j = 0; j < n; ++j) rs_set(vt, C, j, SENT);
    double rowcnd = SENT, colcnd = SENT, amax = SENT; int_t info = -99;
    void *a0 = hx_malloc(vt->esize * (M->nnz + 1)); memcpy(a0, M->val, vt->esize * M->nnz);
    LIB(vt->gsequ(&M->A, R, C, &rowcnd, &colcnd, &amax, &info));
    if (memcmp(a0, M->val, vt->esize * M->nnz)) verdict_fail("C11:gsequ_modified_A", "?gsequ changed A");
    ld sml = vt->is_single ? (ld)FLT_MIN : (ld)DBL_MIN, big = 1 / sml, eps = vt->eps;
    /* reference */
    ld *rr = hx_calloc(m + 1, sizeof(ld)), *cc = hx_calloc(n + 1, sizeof(ld));
    for (int j = 0; j < n; ++j) for (long p = M->cptr[j]; p < M->cptr[j + 1]; ++p) { ld a = cmag(vt, M->cval[p]); if (a > rr[M->cind[p]]) rr[M->cind[p]] = a; }
    ld rmin = big, rmax = 0; int zrow = -1;
    for (int i = 0; i < m; ++i) { if (rr[i] > rmax) rmax = rr[i]; if (rr[i] < rmin) rmin = rr[i]; if (rr[i] == 0 && zrow < 0) zrow = i; }
    feat("info", info);
    if (m == 0 || n == 0) verdict_skip("empty");
    if (fabsl((ld)amax - rmax) > 4 * eps * rmax) verdict_fail("C11:amax_wrong", "amax=%.10g true %.10Lg", amax, rmax);
    if (zrow >= 0) { if (info != zrow + 1) verdict_fail("C11:zero_row_index", "first exactly zero row is %d but info=%d", zrow + 1, (int)info); feat("zero_rowcol", 1); verdict_pass(); }
    int clipped = 0;
    for (int i = 0; i < m; ++i) { ld d = rr[i]; if (d < sml) { d = sml; clipped = 1; } if (d > big) { d = big; clipped = 1; } ld ref = 1 / d; double r = rs_get(vt, R, i);
        if (!(r > 0) || !isfinite(r)) verdict_fail("C11:scale_factor_not_positive", "R[%d]=%g", i, r);
        if (fabsl((ld)r - ref) > 3 * eps * ref) verdict_fail("C11:row_scale_wrong", "R[%d]=%.10g expected 1/max|a_ij| = %.10Lg", i, r, ref);
        rr[i] = r; }
    { ld ref = (rmin > sml ? rmin : sml) / (rmax < big ? rmax : big); if (fabsl((ld)rowcnd - ref) > 6 * eps * ref + (vt->is_single ? 0x1p-148L : 0x1p-1073L)) verdict_fail("C11:rowcnd_wrong", "rowcnd=%.10g true %.10Lg", rowcnd, ref); }
    /* the documented rule is evaluated in working precision: a product |a_ij|*R_i that underflows counts as zero there (as in LAPACK's xGEEQU) */
    for (int j = 0; j < n; ++j) for (long p = M->cptr[j]; p < M->cptr[j + 1]; ++p) { ld a;
        if (vt->is_single) { volatile float pf = (float)cmag(vt, M->cval[p]) * (float)rr[M->cind[p]]; a = pf; } else { volatile double pd = (double)cmag(vt, M->cval[p]) * (double)rr[M->cind[p]]; a = pd; }
        if (a > cc[j]) cc[j] = a; }
    ld cmin = big, cmax = 0; int zcol = -1;
    for (int j = 0; j < n; ++j) { if (cc[j] > cmax) cmax = cc[j]; if (cc[j] < cmin) cmin = cc[j]; if (cc[j] == 0 && zcol < 0) zcol = j; }
    if (zcol >= 0) { if (info != m + zcol + 1) verdict_fail("C11:zero_column_index", "first exactly zero column is %d but info=%d (m=%d)", zcol + 1, (int)info, m); feat("zero_rowcol", 1); verdict_pass(); }
    if (info != 0) verdict_fail("C11:gsequ_info_nonzero", "info=%d without a zero row or column", (int)info);
    for (int j = 0; j < n; ++j) { ld d = cc[j]; if (d < sml) { d = sml; clipped = 1; } if (d > big) { d = big; clipped = 1; } ld ref = 1 / d; double c = rs_get(vt, C, j);
        if (!(c > 0) || !isfinite(c)) verdict_fail("C11:scale_factor_not_positive", "C[%d]=%g", j, c);
        if (fabsl((ld)c - ref) > 8 * eps * ref) verdict_fail("C11:col_scale_wrong", "C[%d]=%.10g expected %.10Lg", j, c, ref);
        cc[j] = c; }
    { ld ref = (cmin > sml ? cmin : sml) / (cmax < big ? cmax : big); if (fabsl((ld)colcnd - ref) > 12 * eps * ref + (vt->is_single ? 0x1p-148L : 0x1p-1073L)) verdict_fail("C11:colcnd_wrong", "colcnd=%.10g true %.10Lg", colcnd, ref); }
    feat("clipped", clipped);
    if (!clipped) { /* row maxima of R*A and column maxima of R*A*C are 1 up to rounding */
        ld *rm = hx_calloc(m + 1, sizeof(ld)), *cm = hx_calloc(n + 1, sizeof(ld));
        for (int j = 0; j < n; ++j) for (long p = M->cptr[j]; p < M->cptr[j + 1]; ++p) { int i = M->cind[p]; ld a = cmag(vt, M->cval[p]) * rr[i]; if (a > rm[i]) rm[i] = a; ld b = a * cc[j]; if (b > cm[j]) cm[j] = b; }
        for (int i = 0; i < m; ++i) if (fabsl(rm[i] - 1) > 6 * eps) verdict_fail("C11:row_not_normalised", "max_j R_i|a_ij| = %.17Lg for row %d", rm[i], i);
        for (int j = 0; j < n; ++j) if (fabsl(cm[j] - 1) > 12 * eps) verdict_fail("C11:col_not_normalised", "max_i R_i|a_ij|C_j = %.17Lg for column %d", cm[j], j);
        hx_free(rm); hx_free(cm);
    }
    /* ---- apply step */
    equed_t eq = (equed_t)77;
    LIB(vt->laqgs(&M->A, R, C, rowcnd, colcnd, amax, &eq));
    ld P_ = vt->is_single ? 0x1p-23L : 0x1p-52L; ld small = sml / P_, large = 1 / small;
    int near = 0;
    if (fabsl((ld)rowcnd - 0.1L) < 1e-6L * 0.1L || fabsl((ld)colcnd - 0.1L) < 1e-6L * 0.1L || fabsl((ld)amax - small) < 1e-6L * small || fabsl((ld)amax - large) < 1e-6L * large) near = 1;
    int want_row = !((ld)rowcnd >= 0.1L && (ld)amax >= small && (ld)amax <= large), want_col = !((ld)colcnd >= 0.1L);
    equed_t exp = want_row ? (want_col ? BOTH : ROW) : (want_col ? COL : NOEQUIL);
    feat("equed", eq); feat("near_threshold", near);
    if (!near && eq != exp) verdict_fail("C11:laqgs_decision", "rowcnd=%.6g colcnd=%.6g amax=%.6g: expected equed=%d, got %d", rowcnd, colcnd, amax, (int)exp, (int)eq);
    int re = (eq == ROW || eq == BOTH), ce = (eq == COL || eq == BOTH);
    if ((int)eq < 0 || (int)eq > 3) verdict_fail("C11:equed_invalid", "equed=%d", (int)eq);
    for (int j = 0; j < n; ++j) for (long p = M->ptr[j]; p < M->ptr[j + 1]; ++p) { int i = M->ind[p]; zq a0_, a1; el_get(vt, a0, p, &a0_.re, &a0_.im); el_get(vt, M->val, p, &a1.re, &a1.im);
        ld s = 1; if (re) s *= rs_get(vt, R, i); if (ce) s *= rs_get(vt, C, j); zq ref = { a0_.re * s, a0_.im * s };
        if (eq == NOEQUIL) { if (a0_.re != a1.re || a0_.im != a1.im) verdict_fail("C11:A_changed_with_NOEQUIL", "equed=NOEQUIL but A(%d,%d) changed", i, j); }
        else if (zq_abs(zq_sub(a1, ref)) > 3 * eps * (vt->is_complex ? 4 : 1) * zq_abs(ref) + (vt->is_single ? 0x1p-140L : 0x1p-1060L)) verdict_fail("C11:A_not_scaled_as_reported", "equed=%d: A(%d,%d)=%.10Lg expected %.10Lg", (int)eq, i, j, a1.re, ref.re); }
    verdict_pass();
}

/* ------------------------------------------------------------------ C19 (part): sparse triangular solves with the returned factors */
int check_sp_trsv(fx_t *x, char *msg, size_t mn, char *sigout, size_t sn)
{
    const slu_vt *vt = x->vt; int n = x->n; dense_lu *D = x->D; ld ceps = vt->eps * (vt->is_complex ? 8 : 1);
    static const char *uplos[2] = { "L", "U" }; static const char *transes[3] = { "N", "T", "C" };
    void *xv = hx_malloc(vt->esize * (n + 1)); zq *b = hx_malloc(sizeof(zq) * (n + 1)), *r = hx_malloc(sizeof(zq) * (n + 1)); ld *den = hx_malloc(sizeof(ld) * (n + 1));
    int bad = 0;
    for (int ul = 0; ul < 2 && !bad; ++ul) for (int tr = 0; tr < 3 && !bad; ++tr) {
        if (tr == 2 && vt->is_complex) hx_ctx_add("complex_conj");
        for (int i = 0; i < n; ++i) { b[i].re = 1.0 + 0.37 * ((i * 5 + ul + 2 * tr) % 7) - 1.1; b[i].im = vt->is_complex ? 0.25 * ((i * 3 + tr) % 5) - 0.4 : 0; el_set(vt, xv, i, (double)b[i].re, (double)b[i].im); el_get(vt, xv, i, &b[i].re, &b[i].im); }
        int_t info = 0; g_xerbla_calls = 0;
        LIB(vt->sp_trsv((char *)uplos[ul], (char *)transes[tr], ul ? "N" : "U", &x->L, &x->U, xv, &info));
        if (info != 0 || g_xerbla_calls) { bad = 1; snprintf(sigout, sn, "C19:sp_trsv_rejects_%s_%s", uplos[ul], transes[tr]); snprintf(msg, mn, "sp_?trsv(%s,%s) returned info=%d (xerbla %s arg %d)", uplos[ul], transes[tr], (int)info, g_xerbla_name, g_xerbla_pos); break; }
        /* residual b - op(T) x with T = L (unit) or U */
        const zq *T = ul ? D->U : D->L;
        for (int i = 0; i < n; ++i) { r[i] = b[i]; den[i] = 0; }
        for (int j = 0; j < n; ++j) { zq xj; el_get(vt, xv, j, &xj.re, &xj.im);
            for (int i = 0; i < n; ++i) { zq t = T[(size_t)j * n + i]; if (t.re == 0 && t.im == 0) continue;
                if (tr == 0) { r[i] = zq_sub(r[i], zq_mul(t, xj)); den[i] += zq_abs(t) * zq_abs(xj); }
                else { if (tr == 2) t.im = -t.im; zq xi; el_get(vt, xv, i, &xi.re, &xi.im); r[j] = zq_sub(r[j], zq_mul(t, xi)); den[j] += zq_abs(t) * zq_abs(xi); } } }
        for (int i = 0; i < n; ++i) { ld e = zq_abs(r[i]); if (!(e <= 2 * gam(n + 1, ceps) * den[i] + 0x1p-1000L)) { bad = 1; snprintf(sigout, sn, "C19:sp_trsv_wrong_%s_%s", uplos[ul], transes[tr]);
            snprintf(msg, mn, "sp_?trsv(%s,%s): |b - op(T)x|_%d = %.3Le > gamma(n+1)*(|T||x|)_%d = %.3Le", uplos[ul], transes[tr], i, e, i, 2 * gam(n + 1, ceps) * den[i]); break; } }
    }
    hx_free(xv); hx_free(b); hx_free(r); hx_free(den);
    return bad;
}
