/* props_hist.c — call-history engine: C08 (re-factorization / factor reuse), C17 (no leaks), C18 (no hidden state).
 * The operation list of the case ("op ..." lines) is executed against one sparsity pattern following the protocols of
 * EXAMPLE/pdrepeat.c (p?gstrf_init + p?gstrf + ?gstrs) and of the drivers; an oracle runs after every step. */
#define _GNU_SOURCE
#include "slu_mt_ddefs.h"
#include "xd.h"
#include <math.h>
#include <stdarg.h>

typedef struct {
    const slu_vt *vt; hx_matrix *M; int n;
    int_t *perm_c, *perm_r, *perm_c0;
    SuperMatrix L, U, AC; superlumt_options_t opt; Gstat_t gs;
    int have_stat, have_factors, have_AC, stat_P;
    double u; int P; int last_usepr;
    void *work; long lwork;
    uint64_t rng;
    int step;
    uint64_t probe_hash;
} hist_t;

static uint64_t sm64(uint64_t *s) { uint64_t z = (*s += 0x9E3779B97F4A7C15ull); z = (z ^ (z >> 30)) * 0xBF58476D1CE4E5B9ull; z = (z ^ (z >> 27)) * 0x94D049BB133111EBull; return z ^ (z >> 31); }
static double urand(uint64_t *s) { return (double)(sm64(s) >> 11) * (1.0 / 9007199254740992.0); }

static const char *opt_str(const char *op, const char *key, const char *dflt, char *buf, size_t n)
{
    size_t kl = strlen(key); const char *p = op;
    while ((p = strstr(p, key))) { if ((p == op || p[-1] == ' ') && p[kl] == '=') { p += kl + 1; size_t i = 0; while (*p && *p != ' ' && i + 1 < n) buf[i++] = *p++; buf[i] = 0; return buf; } p += kl; }
    return dflt;
}
static long opt_int(const char *op, const char *key, long d) { char b[64]; const char *s = opt_str(op, key, NULL, b, sizeof b); return s ? strtol(s, NULL, 0) : d; }
static double opt_dbl(const char *op, const char *key, double d) { char b[64]; const char *s = opt_str(op, key, NULL, b, sizeof b); return s ? strtod(s, NULL) : d; }

static void refresh_cval(hx_matrix *M)
{
    int n = M->n; int nmaj = M->stype ? M->m : M->n; long *c2 = hx_calloc(n + 1, sizeof(long));
    for (int j = 0; j < n; ++j) c2[j] = M->cptr[j];
    for (int maj = 0; maj < nmaj; ++maj) for (long p = M->ptr[maj]; p < M->ptr[maj + 1]; ++p) { int j = M->stype ? M->ind[p] : maj; long pos = c2[j]++; el_get(M->vt, M->val, p, &M->cval[pos].re, &M->cval[pos].im); }
    hx_free(c2);
}

static void sched_for_op(const char *op, int P)
{
    char b[32]; const char *sm = opt_str(op, "sched", "none", b, sizeof b); int mode = SCHED_NONE, strat = 0;
    if (!strncmp(sm, "controlled", 10)) mode = SCHED_CONTROLLED; else if (!strncmp(sm, "free", 4)) mode = SCHED_FREE;
    char c[32]; const char *st = opt_str(op, "strategy", "uniform", c, sizeof c);
    if (!strcmp(st, "sticky")) strat = 1; else if (!strcmp(st, "pct")) strat = 2;
    sched_configure(mode, P, (uint64_t)opt_int(op, "seed", 1), strat, (int)opt_int(op, "sparam", 2), 100);
}

/* change the numerical values on the fixed pattern */
static void change_values(hist_t *h, const char *mode, uint64_t vseed)
{
    const slu_vt *vt = h->vt; hx_matrix *M = h->M; uint64_t r = vseed * 0x9E3779B97F4A7C15ull + 12345;
    long nnz = M->nnz; int nmaj = M->stype ? M->m : M->n;
    if (!strcmp(mode, "scale")) { static const double cs[] = { 1.5, -2.0, 0.25, 3.0, -0.5 }; double c = cs[sm64(&r) % 5];
        for (long p = 0; p < nnz; ++p) { zq v; el_get(vt, M->val, p, &v.re, &v.im); el_set(vt, M->val, p, (double)(v.re * c), (double)(v.im * c)); } }
    else if (!strcmp(mode, "flip")) { for (long p = 0; p < nnz; ++p) if (sm64(&r) & 1) { zq v; el_get(vt, M->val, p, &v.re, &v.im); el_set(vt, M->val, p, (double)-v.re, (double)-v.im); } }
    else if (!strcmp(mode, "redraw")) { for (long p = 0; p < nnz; ++p) { zq v; el_get(vt, M->val, p, &v.re, &v.im); double f = 0.1 + 0.9 * urand(&r); if (sm64(&r) & 1) f = -f;
            /* keep the dominant (largest in its column) entries so that the matrix stays comfortably nonsingular */
            el_set(vt, M->val, p, (double)(v.re * f), (double)(v.im * f)); }
        /* restore column maxima: scale the largest entry of every major index back up */
        for (int maj = 0; maj < nmaj; ++maj) { long best = -1; ld bm = -1; ld sum = 0; for (long p = M->ptr[maj]; p < M->ptr[maj + 1]; ++p) { zq v; el_get(vt, M->val, p, &v.re, &v.im); ld a = zq_abs(v); sum += a; if (a > bm) { bm = a; best = p; } }
            if (best >= 0 && bm > 0) { zq v; el_get(vt, M->val, best, &v.re, &v.im); ld f = (sum * 1.5L + 1) / bm; el_set(vt, M->val, best, (double)(v.re * f), (double)(v.im * f)); } } }
    else if (!strcmp(mode, "pivbreak") || !strcmp(mode, "pivkeep")) {
        double f = !strcmp(mode, "pivbreak") ? 1e-3 : 4.0; int n = h->n;
        if (is_perm(h->perm_r, n) && is_perm(h->perm_c, n)) for (int maj = 0; maj < nmaj; ++maj) for (long p = M->ptr[maj]; p < M->ptr[maj + 1]; ++p) {
            int i = M->stype ? maj : M->ind[p], j = M->stype ? M->ind[p] : maj; int fr = M->stype ? j : i, fc = M->stype ? i : j;   /* factored matrix coordinates */
            if (h->perm_r[fr] == h->perm_c[fc] && (sm64(&r) % 3) != 0) { zq v; el_get(vt, M->val, p, &v.re, &v.im); el_set(vt, M->val, p, (double)(v.re * f), (double)(v.im * f)); } } }
    else if (!strcmp(mode, "zerocol")) { int k = (int)(sm64(&r) % (uint64_t)nmaj); for (long p = M->ptr[k]; p < M->ptr[k + 1]; ++p) el_set(vt, M->val, p, 0.0, 0.0); }
    refresh_cval(M);
}

static void step_fail(hist_t *h, const char *op, const char *sig, const char *fmt, ...) __attribute__((format(printf, 4, 5), noreturn));
static void step_fail(hist_t *h, const char *op, const char *sig, const char *fmt, ...)
{
    char d[900]; va_list ap; va_start(ap, fmt); vsnprintf(d, sizeof d, fmt, ap); va_end(ap);
    verdict_fail(sig, "step %d (%s): %s", h->step, op, d);
}

/* non-finite entries in returned factors: excused only under a threshold u < 1 (unbounded growth) or on a matrix that the
   extended-precision reference finds singular to working precision (F16, F19); otherwise a violation */
static void nonfinite_factors(hist_t *h, const char *op, dense_lu *D, csc_q *F)
{
    int n = h->n; int bad = 0;
    for (size_t k = 0; k < (size_t)n * n && !bad; ++k) if (!isfinite((double)D->L[k].re) || !isfinite((double)D->L[k].im) || !isfinite((double)D->U[k].re) || !isfinite((double)D->U[k].im)) bad = 1;
    if (!bad) return;
    if (h->u < 1.0) verdict_skip("non-finite L/U under a pivoting threshold u=%g < 1 (element growth is unbounded)", h->u);
    ld g = 0, mp = 0;
    if (!ref_nonsingular(h->vt, F, &g, &mp)) verdict_skip("non-finite L/U on a matrix that is singular to working precision (reference: min pivot/amax %.2Le)", mp);
    step_fail(h, op, "oracle:LU_not_finite", "L or U contains a non-finite value (reference elimination: growth %.2Le, min pivot/amax %.2Le)", g, mp);
}

/* oracle after a factorization step */
static void check_factor_step(hist_t *h, const char *op, int_t info, int usepr, const int_t *perm_r_in)
{
    const slu_vt *vt = h->vt; int n = h->n; csc_q F = factored_view(h->M); char msg[400];
    if (info > n && h->lwork > 0 && P_int("ws_tight", 0)) {
        /* the caller's workspace was sized for one thread only: running out of it when more threads ask for work areas is the
           documented outcome (info = bytes + n); the factors are unusable afterwards, so the history ends here */
        feat_add("ws_exhausted", 1); feat("nops", G->nops); verdict_pass(); }
    if (info > n && h->lwork > 0) step_fail(h, op, "C08:workspace_exhausted_in_history", "info=%d > n: the caller's workspace of %ld bytes (sized from the library's own query for the largest thread count) ran out at this step", (int)info, h->lwork);
    if (info < 0 || info > n) step_fail(h, op, "oracle:info_out_of_range", "info=%d", (int)info);
    if (info != 0) { ld g, mp; if (h->u >= 1.0 && ref_nonsingular(vt, &F, &g, &mp)) step_fail(h, op, "oracle:info_nonzero", "info=%d for values the reference factors without trouble (min pivot/amax %.2Le)", (int)info, mp);
        feat_add("singular_steps", 1);
        /* C06 on a singular step: the returned objects are safe to inspect and consistent with info */
        if (!is_perm(h->perm_c, n)) step_fail(h, op, "oracle:perm_c_not_bijection", "perm_c not a permutation after the singular return info=%d", (int)info);
        if (!is_perm(h->perm_r, n)) step_fail(h, op, "oracle:perm_r_not_bijection", "perm_r not a permutation after the singular return info=%d", (int)info);
        const char *bad0 = validate_LU(vt, n, &h->L, &h->U, 1, 1);
        if (bad0) { char cls[64]; snprintf(cls, sizeof cls, "%s", bad0); char *c = strchr(cls, ':'); if (c) *c = 0; char sig[100]; snprintf(sig, sizeof sig, "oracle:LU_malformed:%s", cls); step_fail(h, op, sig, "after the singular return info=%d: %s", (int)info, bad0); }
        dense_lu *D0 = extract_LU(vt, n, &h->L, &h->U);
        nonfinite_factors(h, op, D0, &F);
        int first0 = -1; for (int j = 0; j < n; ++j) { zq u = D0->U[(size_t)j * n + j]; if (u.re == 0 && u.im == 0) { first0 = j; break; } }
        free_dense_lu(D0);
        if (first0 + 1 != info) step_fail(h, op, "oracle:info_inconsistent_with_U", "info=%d but the first exactly-zero diagonal entry of the returned U is at position %d", (int)info, first0 + 1);
        return; }
    if (!is_perm(h->perm_c, n)) step_fail(h, op, "oracle:perm_c_not_bijection", "perm_c not a permutation");
    if (!is_perm(h->perm_r, n)) step_fail(h, op, "oracle:perm_r_not_bijection", "perm_r not a permutation");
    const char *bad = validate_LU(vt, n, &h->L, &h->U, 1, 1);
    if (bad) { char cls[64]; snprintf(cls, sizeof cls, "%s", bad); char *c = strchr(cls, ':'); if (c) *c = 0; char sig[100]; snprintf(sig, sizeof sig, "oracle:LU_malformed:%s", cls); step_fail(h, op, sig, "%s", bad); }
    dense_lu *D = extract_LU(vt, n, &h->L, &h->U);
    nonfinite_factors(h, op, D, &F);
    if (check_reconstruction(vt, &F, D, h->perm_r, h->perm_c, msg, sizeof msg)) step_fail(h, op, "oracle:reconstruction_bound", "%s (stale or wrong factor for the values current at this call)", msg);
    long amb, off, kept;
    if (check_pivot_policy(vt, D, h->perm_r, h->perm_c, h->u, usepr, 0, &amb, &off, &kept, msg, sizeof msg)) step_fail(h, op, "oracle:pivot_policy", "%s", msg);
    if (usepr && perm_r_in) {
        /* reference elimination with the old row order: do all old pivots pass the threshold with a margin that covers the
           rounding errors of the working precision?  E accumulates |a| + sum |l||u| per entry, so that 8n*eps*E bounds the distance
           between an entry as the library computed it and the reference value.  (The opposite direction - an old pivot that fails
           the threshold must not be kept - is decided on the returned factors themselves by check_pivot_policy: multipliers <= 1/u.) */
        zq *A = hx_calloc((size_t)n * n + 1, sizeof(zq)); ld *E = hx_calloc((size_t)n * n + 1, sizeof(ld));
        for (int j = 0; j < n; ++j) for (long p = F.ptr[j]; p < F.ptr[j + 1]; ++p) { size_t q = (size_t)h->perm_c[j] * n + perm_r_in[F.ind[p]]; A[q] = zq_add(A[q], F.val[p]); }
        /* running error bound (first order, with a safety factor): E[q] bounds the distance between the entry as a working-precision
           elimination in this order computes it and the reference value; errors of the multipliers (divided by the pivot) and of
           the U entries are propagated, so small pivots amplify it as they do in the library */
        int all_pass = 1; ld we = (ld)vt->eps * (vt->is_complex ? 4 : 1);
        for (int k = 0; k < n && all_pass; ++k) {
            ld pm = 0, pme = 0; for (int i = k; i < n; ++i) { zq a = A[(size_t)k * n + i]; ld m = vt->is_complex ? zq_abs1(a) : fabsl(a.re); ld e = 4 * E[(size_t)k * n + i] * (vt->is_complex ? 2 : 1); if (m + e > pm + pme) { pm = m; pme = e; } }
            zq pk = A[(size_t)k * n + k]; ld mk = vt->is_complex ? zq_abs1(pk) : fabsl(pk.re); ld ek = 4 * E[(size_t)k * n + k] * (vt->is_complex ? 2 : 1);
            if (mk == 0 || !(mk - ek > h->u * (pm + pme) * (1 + 1e-6L))) { all_pass = 0; break; }
            ld pa = zq_abs(pk), ep = E[(size_t)k * n + k];
            for (int i = k + 1; i < n; ++i) { size_t q = (size_t)k * n + i; zq *l = &A[q]; if (l->re == 0 && l->im == 0 && E[q] == 0) continue; *l = zq_div(*l, pk); ld la = zq_abs(*l); E[q] = (E[q] + la * ep) / pa + we * la; }
            for (int j = k + 1; j < n; ++j) { zq ukj = A[(size_t)j * n + k]; ld ua = zq_abs(ukj), eu = E[(size_t)j * n + k]; if (ua == 0 && eu == 0) continue;
                for (int i = k + 1; i < n; ++i) { zq l = A[(size_t)k * n + i]; ld la = zq_abs(l), el = E[(size_t)k * n + i]; if (la == 0 && el == 0) continue; size_t q = (size_t)j * n + i;
                    A[q] = zq_sub(A[q], zq_mul(l, ukj)); E[q] += la * eu + ua * el + el * eu + we * (la * ua + zq_abs(A[q])); } }
        }
        hx_free(A); hx_free(E);
        int same = !memcmp(perm_r_in, h->perm_r, sizeof(int_t) * n);
        if (all_pass) { feat_add("usepr_kept", 1); if (!same) step_fail(h, op, "C08:perm_r_changed_although_old_pivots_pass", "usepr=YES and every old pivot passes the threshold u=%g with a margin above the rounding level, but perm_r was changed", h->u); }
        else if (!same) feat_add("usepr_fallback", 1);
    }
    feat("nsuper", D->nsuper + 1); feat("maxsup", D->maxsup);
    h->probe_hash = fnv1a(h->perm_r, sizeof(int_t) * n, fnv1a(h->perm_c, sizeof(int_t) * n, hash_LU(vt, &h->L, &h->U)));
    free_dense_lu(D);
}

static void op_first(hist_t *h, const char *op, int refact)
{
    const slu_vt *vt = h->vt; int n = h->n; hx_matrix *M = h->M;
    if (M->stype) verdict_skip("gstrf protocol needs NC");
    h->P = (int)opt_int(op, "P", 1); h->u = opt_dbl(op, "u", 1.0); int usepr = refact ? (int)opt_int(op, "usepr", 0) : 0;
    if (refact && !h->have_factors) verdict_skip("REFACT without factors");
    if (!refact && h->have_factors) verdict_skip("FIRST while factors exist");
    if (refact && h->have_factors && !is_perm(h->perm_r, n)) usepr = 0;
    int_t *pr_in = NULL;
    if (usepr) { pr_in = hx_malloc(sizeof(int_t) * (n + 1)); memcpy(pr_in, h->perm_r, sizeof(int_t) * n); }
    sched_for_op(op, h->P);
    int t0 = count_tasks();
    g_track = 1;
    if (!h->have_stat || h->stat_P < h->P) { if (h->have_stat) StatFree(&h->gs); StatAlloc(n, h->P, g_ienv[1], g_ienv[2], &h->gs); h->have_stat = 1; h->stat_P = h->P; }
    StatInit(n, h->P, &h->gs);
    if (!refact) { memcpy(h->perm_c, h->perm_c0, sizeof(int_t) * n); }
    else if (h->have_AC) { Destroy_CompCol_Permuted(&h->AC); h->have_AC = 0; }
    g_track = 0;
    sched_begin_factor(h->P);
    g_track = 1;
    vt->gstrf_init(h->P, DOFACT, NOTRANS, refact ? YES : NO, g_ienv[1], g_ienv[2], h->u, usepr ? YES : NO, 0.0, h->perm_c, h->perm_r, h->work, (int_t)h->lwork, &M->A, &h->AC, &h->opt, &h->gs);
    h->have_AC = 1;
    int_t info = -777;
    g_phase = refact ? "refact" : "first";
    vt->gstrf(&h->opt, &h->AC, h->perm_r, &h->L, &h->U, &h->gs, &info);
    g_track = 0;
    sched_end_factor();
    if (tasks_after(t0) != t0) step_fail(h, op, "C04:thread_count_changed", "threads before %d after %d", t0, count_tasks());
    h->have_factors = 1; h->last_usepr = usepr;
    feat_add(refact ? "refacts" : "firsts", 1);
    check_factor_step(h, op, info, usepr, pr_in);
    if (pr_in) hx_free(pr_in);
    if (info != 0) h->probe_hash = fnv1a(&info, sizeof info, 0);
}

static void op_solve(hist_t *h, const char *op)
{
    const slu_vt *vt = h->vt; int n = h->n; hx_matrix *M = h->M;
    if (!h->have_factors) verdict_skip("SOLVE without factors");
    char tb[8]; const char *ts = opt_str(op, "trans", "N", tb, sizeof tb); trans_t trans = ts[0] == 'T' ? TRANS : ts[0] == 'C' ? CONJ : NOTRANS;
    int nrhs = (int)opt_int(op, "nrhs", 1); uint64_t r = (uint64_t)opt_int(op, "bseed", 7) * 2654435761u + 99;
    if (trans == CONJ && vt->is_complex) hx_ctx_add("complex_conj");
    /* only valid if the last factorization succeeded */
    const char *bad = validate_LU(vt, n, &h->L, &h->U, 1, 0); if (bad || !is_perm(h->perm_r, n)) { feat_add("solve_skipped_singular", 1); return; }
    dense_lu *D = extract_LU(vt, n, &h->L, &h->U);
    { ld mn = INFINITY, mxl = 0; for (int j = 0; j < n; ++j) { ld a = zq_abs(D->U[(size_t)j * n + j]); if (a < mn) mn = a; } for (size_t k = 0; k < (size_t)n * n; ++k) { ld a = zq_abs(D->L[k]); if (a > mxl) mxl = a; } feat("min_ujj", (double)mn); feat("max_l", (double)mxl);
      ld mxu = 0; for (int j = 0; j < n; ++j) { ld a = zq_abs(D->U[(size_t)j * n + j]); if (a > mxu) mxu = a; }
      /* a value change (pivbreak) may leave a matrix that is singular to working precision: the solve may overflow; nothing is claimed for it */
      if (mn < 100 * n * (ld)vt->eps * mxu) { free_dense_lu(D); feat_add("solve_skipped_illcond", 1); return; } }
    for (int j = 0; j < n; ++j) { zq u = D->U[(size_t)j * n + j]; if (u.re == 0 && u.im == 0) { free_dense_lu(D); feat_add("solve_skipped_singular", 1); return; } }
    void *bval; SuperMatrix B; make_dense_B(vt, n, nrhs, n > 0 ? n : 1, &bval, &B, 0);
    for (long k = 0; k < (long)n * nrhs; ++k) el_set(vt, bval, k, 2 * urand(&r) - 1, vt->is_complex ? 2 * urand(&r) - 1 : 0);
    size_t bb = vt->esize * (size_t)(n > 0 ? n : 1) * nrhs; void *b0 = hx_malloc(bb + 1); memcpy(b0, bval, bb);
    uint64_t hA = hash_supermatrix_nc(vt, &M->A), hLU = hash_LU(vt, &h->L, &h->U);
    uint64_t hp = fnv1a(h->perm_r, sizeof(int_t) * n, fnv1a(h->perm_c, sizeof(int_t) * n, 0));
    int_t info = -777; g_xerbla_calls = 0;
    g_phase = "gstrs";
    LIB(vt->gstrs(trans, &h->L, &h->U, h->perm_r, h->perm_c, &B, &h->gs, &info));
    if (hash_supermatrix_nc(vt, &M->A) != hA) step_fail(h, op, "C08:A_modified_by_solve", "a solve that only reuses factors modified A");
    if (hash_LU(vt, &h->L, &h->U) != hLU) step_fail(h, op, "C08:factors_modified_by_solve", "a solve that only reuses factors modified L or U");
    if (fnv1a(h->perm_r, sizeof(int_t) * n, fnv1a(h->perm_c, sizeof(int_t) * n, 0)) != hp) step_fail(h, op, "C08:perm_modified_by_solve", "a solve modified perm_r or perm_c");
    if (info != 0 || g_xerbla_calls) step_fail(h, op, "C07:solve_rejected_valid_trans", "?gstrs returned info=%d (xerbla %s arg %d) for trans=%s", (int)info, g_xerbla_name, g_xerbla_pos, ts);
    csc_q F = factored_view(M); char msg[400]; double worst;
    if (check_residual(vt, &F, D, h->perm_r, h->perm_c, trans == NOTRANS ? 0 : trans == TRANS ? 1 : 2, bval, n > 0 ? n : 1, b0, n > 0 ? n : 1, nrhs, &worst, msg, sizeof msg))
        step_fail(h, op, "oracle:residual_bound", "%s (solution does not belong to the values current at this call)", msg);
    feat_add("solves", 1);
    h->probe_hash = fnv1a(bval, bb, h->probe_hash);
    free_dense_lu(D); hx_free(b0); hx_free(bval); hx_free(B.Store);
}

static void op_destroy(hist_t *h)
{
    if (!h->have_factors) return;
    g_track = 1;
    h->vt->finalize(&h->opt, &h->AC); h->have_AC = 0;
    if (h->lwork == 0) { Destroy_SuperNode_SCP(&h->L); Destroy_CompCol_NCP(&h->U); }
    if (h->have_stat) { StatFree(&h->gs); h->have_stat = 0; }
    g_track = 0;
    h->have_factors = 0;
    feat_add("destroys", 1);
}

/* an independent random system in (possibly) another precision, factored and thrown away: prefix material for C17/C18 */
static void op_other(hist_t *h, const char *op)
{
    char pb[8]; const slu_vt *vt = vt_of(opt_str(op, "prec", "d", pb, sizeof pb)[0]); int n = (int)opt_int(op, "n", 6); int P = (int)opt_int(op, "P", 1);
    uint64_t r = (uint64_t)opt_int(op, "seed", 3) * 0x9E3779B97F4A7C15ull + 1; char mb[16]; const char *mode = opt_str(op, "mode", "ok", mb, sizeof mb);
    /* pattern: diagonal + ~2 random entries per column */
    long cap = 3L * n + 4; int_t *ri = hx_malloc(sizeof(int_t) * cap), *cp = hx_malloc(sizeof(int_t) * (n + 1)); void *val = hx_malloc(vt->esize * cap); long nz = 0;
    for (int j = 0; j < n; ++j) { cp[j] = nz; ri[nz] = j; el_set(vt, val, nz, 4.0 + urand(&r), vt->is_complex ? 0.5 : 0); nz++;
        for (int t = 0; t < 2; ++t) { int i = (int)(sm64(&r) % (uint64_t)n); int dup = 0; for (long q = cp[j]; q < nz; ++q) if (ri[q] == i) dup = 1; if (dup) continue; ri[nz] = i; el_set(vt, val, nz, urand(&r) - 0.5, vt->is_complex ? urand(&r) - 0.5 : 0); nz++; } }
    cp[n] = nz;
    if (!strcmp(mode, "singular")) for (long q = cp[n / 2]; q < cp[n / 2 + 1]; ++q) el_set(vt, val, q, 0, 0);
    NCformat st = { nz, val, ri, cp }; SuperMatrix A = { SLU_NC, vt->dtype, SLU_GE, n, n, &st };
    int_t *pc = hx_malloc(sizeof(int_t) * (n + 1)), *pr = hx_malloc(sizeof(int_t) * (n + 1)); SuperMatrix L, U, B; void *bval; make_dense_B(vt, n, 1, n, &bval, &B, 0);
    int_t info = -777;
    sched_configure(P >= 2 ? SCHED_CONTROLLED : SCHED_NONE, P, (uint64_t)opt_int(op, "seed", 3), 0, 0, 100);
    int sv6 = g_ienv[6], sv7 = g_ienv[7], sv8 = g_ienv[8];       /* storage estimates follow this system's own size */
    g_ienv[6] = g_ienv[7] = n * n + 4 * n + 64; g_ienv[8] = 2 * n * n + 8 * n + 64;
    g_track = 1; get_perm_c((int)opt_int(op, "order", 0), &A, pc); g_track = 0;
    sched_begin_factor(P);
    g_phase = "other";
    LIB(vt->gssv(P, &A, pc, pr, &L, &U, &B, &info));
    sched_end_factor();
    if (info == 0 || (info > 0 && info <= n)) { g_track = 1; Destroy_SuperNode_SCP(&L); Destroy_CompCol_NCP(&U); g_track = 0; }
    g_ienv[6] = sv6; g_ienv[7] = sv7; g_ienv[8] = sv8;
    feat_add("others", 1); (void)h;
    hx_free(ri); hx_free(cp); hx_free(val); hx_free(pc); hx_free(pr); hx_free(bval); hx_free(B.Store);
}

/* one-shot simple driver on the current values (own permutation arrays), destroyed afterwards */
static void op_gssv(hist_t *h, const char *op)
{
    const slu_vt *vt = h->vt; int n = h->n; hx_matrix *M = h->M; int P = (int)opt_int(op, "P", 1);
    int_t *pc = hx_malloc(sizeof(int_t) * (n + 1)), *pr = hx_malloc(sizeof(int_t) * (n + 1)); memcpy(pc, h->perm_c0, sizeof(int_t) * n);
    SuperMatrix L, U, B; void *bval; int nrhs = (int)opt_int(op, "nrhs", 1); make_dense_B(vt, n, nrhs, n, &bval, &B, 0);
    size_t bb = vt->esize * (size_t)n * nrhs; void *b0 = hx_malloc(bb + 1); memcpy(b0, bval, bb);
    int_t info = -777; sched_for_op(op, P); sched_begin_factor(P);
    g_phase = "gssv";
    LIB(vt->gssv(P, &M->A, pc, pr, &L, &U, &B, &info));
    sched_end_factor();
    if (info == 0) {
        if (!is_perm(pr, n) || !is_perm(pc, n)) step_fail(h, op, "oracle:perm_not_bijection", "simple driver returned a non-permutation");
        const char *bad = validate_LU(vt, n, &L, &U, 1, 1); if (bad) step_fail(h, op, "oracle:LU_malformed", "%s", bad);
        dense_lu *D = extract_LU(vt, n, &L, &U); csc_q F = factored_view(M); char msg[400]; double w;
        ld mn = INFINITY, mxu = 0; for (int j = 0; j < n; ++j) { ld a = zq_abs(D->U[(size_t)j * n + j]); if (a < mn) mn = a; if (a > mxu) mxu = a; }
        if (mn < 100 * n * (ld)vt->eps * mxu) feat_add("solve_skipped_illcond", 1);       /* singular to working precision after a value change */
        else if (check_residual(vt, &F, D, pr, pc, M->stype ? 1 : 0, bval, n, b0, n, nrhs, &w, msg, sizeof msg)) step_fail(h, op, "oracle:residual_bound", "%s", msg);
        h->probe_hash = fnv1a(bval, bb, fnv1a(pr, sizeof(int_t) * n, fnv1a(pc, sizeof(int_t) * n, hash_LU(vt, &L, &U))));
        free_dense_lu(D);
    } else { if (info < 0 || info > n) step_fail(h, op, "oracle:info_out_of_range", "info=%d", (int)info); h->probe_hash = fnv1a(&info, sizeof info, 0); feat_add("singular_steps", 1); }
    g_track = 1; Destroy_SuperNode_SCP(&L); Destroy_CompCol_NCP(&U); g_track = 0;
    feat_add("gssvs", 1);
    hx_free(pc); hx_free(pr); hx_free(bval); hx_free(b0); hx_free(B.Store);
}

/* caller-supplied workspace for the whole history: size = ws_factor x the library's own lwork=-1 estimate */
static void hist_user_workspace(hist_t *h)
{
    double f = P_dbl("ws_factor", 0); if (f <= 0 || h->M->stype) return;
    const slu_vt *vt = h->vt; int n = h->n; int P = (int)P_int("ws_P", 4);
    int_t info = 0; Gstat_t gs; superlumt_options_t o; SuperMatrix AC, L, U; int_t *pc = hx_malloc(sizeof(int_t) * (n + 1)), *pr = hx_malloc(sizeof(int_t) * (n + 1));
    memcpy(pc, h->perm_c0, sizeof(int_t) * n);
    g_track = 1;
    StatAlloc(n, P, g_ienv[1], g_ienv[2], &gs); StatInit(n, P, &gs);
    vt->gstrf_init(P, DOFACT, NOTRANS, NO, g_ienv[1], g_ienv[2], 1.0, NO, 0.0, pc, pr, NULL, -1, &h->M->A, &AC, &o, &gs);
    vt->gstrf(&o, &AC, pr, &L, &U, &gs, &info);
    vt->finalize(&o, &AC); StatFree(&gs);
    g_track = 0;
    if (info <= n) verdict_skip("workspace query returned info=%d", (int)info);
    h->lwork = (long)((double)(info - n) * f); h->lwork = (h->lwork + 15) & ~15L;
    h->work = hx_malloc((size_t)h->lwork); memset(h->work, getenv("HX_WSFILL") ? atoi(getenv("HX_WSFILL")) : 0x7F, (size_t)h->lwork);   /* the caller's buffer is not zeroed */
    feat("user_workspace", (double)h->lwork);
    hx_free(pc); hx_free(pr);
}

/* one-shot expert driver call on the current values (own permutation / option arrays), everything destroyed afterwards */
static void op_gssvx(hist_t *h, const char *op)
{
    const slu_vt *vt = h->vt; int n = h->n; hx_matrix *M = h->M; int P = (int)opt_int(op, "P", 1);
    int_t *pc = hx_malloc(sizeof(int_t) * (n + 1)), *pr = hx_malloc(sizeof(int_t) * (n + 1)); memcpy(pc, h->perm_c0, sizeof(int_t) * n);
    superlumt_options_t o; memset(&o, 0, sizeof o);
    char fb[16], tb[8]; o.nprocs = P; o.fact = parse_fact(opt_str(op, "fact", "DOFACT", fb, sizeof fb)); o.trans = parse_trans(opt_str(op, "trans", "N", tb, sizeof tb)); o.refact = NO;
    o.panel_size = g_ienv[1]; o.relax = g_ienv[2]; o.diag_pivot_thresh = opt_dbl(op, "u", 1.0); o.usepr = NO; o.drop_tol = 0; o.SymmetricMode = opt_int(op, "symm", 0) ? YES : NO; o.PrintStat = NO;
    o.perm_c = pc; o.perm_r = pr; o.work = NULL; o.lwork = 0;
    o.etree = hx_malloc(sizeof(int_t) * (n + 1)); o.colcnt_h = hx_malloc(sizeof(int_t) * (n + 1)); o.part_super_h = hx_malloc(sizeof(int_t) * (n + 1));
    if (o.trans == CONJ && vt->is_complex) hx_ctx_add("complex_conj");
    SuperMatrix L, U, B, X; void *bval, *xval; int nrhs = (int)opt_int(op, "nrhs", 1); make_dense_B(vt, n, nrhs, n, &bval, &B, 0); make_dense_B(vt, n, nrhs, n, &xval, &X, 0);
    void *R = hx_malloc(vt->rsize * (n + 1)), *C = hx_malloc(vt->rsize * (n + 1)), *fe = hx_malloc(vt->rsize * (nrhs + 1)), *be = hx_malloc(vt->rsize * (nrhs + 1));
    void *a0 = hx_malloc(vt->esize * (M->nnz + 1)); memcpy(a0, M->val, vt->esize * M->nnz);
    equed_t eq = NOEQUIL; double rpg = 0, rc = 0; superlu_memusage_t mu; int_t info = -777;
    sched_for_op(op, P); sched_begin_factor(P);
    g_phase = "gssvx";
    LIB(vt->gssvx(P, &o, &M->A, pc, pr, &eq, R, C, &L, &U, &B, &X, &rpg, &rc, fe, be, &mu, &info));
    sched_end_factor();
    if (info == 0 || info == n + 1) {
        const char *bad = validate_LU(vt, n, &L, &U, 1, 1); if (bad) step_fail(h, op, "oracle:LU_malformed", "%s", bad);
        if (!is_perm(pr, n) || !is_perm(pc, n)) step_fail(h, op, "oracle:perm_not_bijection", "expert driver returned a non-permutation");
        h->probe_hash = fnv1a(xval, vt->esize * (size_t)n * nrhs, fnv1a(pr, sizeof(int_t) * n, fnv1a(pc, sizeof(int_t) * n, hash_LU(vt, &L, &U))));
        /* the expert driver's scalar outputs belong to the result as well: condition estimate, pivot growth, error bounds, scalings */
        h->probe_hash = fnv1a(&rc, sizeof rc, fnv1a(&rpg, sizeof rpg, fnv1a(&eq, sizeof eq, h->probe_hash)));
        if (info == 0) h->probe_hash = fnv1a(fe, vt->rsize * (size_t)nrhs, fnv1a(be, vt->rsize * (size_t)nrhs, h->probe_hash));
        if (eq == ROW || eq == BOTH) h->probe_hash = fnv1a(R, vt->rsize * (size_t)n, h->probe_hash);
        if (eq == COL || eq == BOTH) h->probe_hash = fnv1a(C, vt->rsize * (size_t)n, h->probe_hash);
    } else if (info < 0 || info > n + 1) step_fail(h, op, "oracle:info_out_of_range", "info=%d", (int)info);
    else { h->probe_hash = fnv1a(&info, sizeof info, 0); feat_add("singular_steps", 1); }
    g_track = 1; Destroy_SuperNode_SCP(&L); Destroy_CompCol_NCP(&U); g_track = 0;
    memcpy(M->val, a0, vt->esize * M->nnz);      /* undo equilibration so that later steps see the caller's values */
    feat_add("gssvxs", 1);
    hx_free(pc); hx_free(pr); hx_free(o.etree); hx_free(o.colcnt_h); hx_free(o.part_super_h); hx_free(bval); hx_free(xval); hx_free(B.Store); hx_free(X.Store); hx_free(R); hx_free(C); hx_free(fe); hx_free(be); hx_free(a0);
}

/* workspace-size query (lwork = -1) through the computational routine or through the expert driver: no factorization is
   performed, a positive estimate comes back, nothing is handed to the caller (so nothing may stay allocated) */
static void op_query(hist_t *h, const char *op)
{
    const slu_vt *vt = h->vt; int n = h->n; hx_matrix *M = h->M; int P = (int)opt_int(op, "P", 1); char vb[16]; const char *via = opt_str(op, "via", "gstrf", vb, sizeof vb);
    int_t *pc = hx_malloc(sizeof(int_t) * (n + 1)), *pr = hx_malloc(sizeof(int_t) * (n + 1)); memcpy(pc, h->perm_c0, sizeof(int_t) * n);
    int_t info = -777; SuperMatrix L, U; memset(&L, 0, sizeof L); memset(&U, 0, sizeof U);
    if (!strcmp(via, "gstrf")) {
        if (M->stype) { hx_free(pc); hx_free(pr); return; }
        Gstat_t gs; superlumt_options_t o; SuperMatrix AC;
        g_track = 1; g_phase = "query";
        StatAlloc(n, P, g_ienv[1], g_ienv[2], &gs); StatInit(n, P, &gs);
        vt->gstrf_init(P, DOFACT, NOTRANS, NO, g_ienv[1], g_ienv[2], 1.0, NO, 0.0, pc, pr, NULL, -1, &M->A, &AC, &o, &gs);
        vt->gstrf(&o, &AC, pr, &L, &U, &gs, &info);
        vt->finalize(&o, &AC); StatFree(&gs);
        g_track = 0;
        if (info <= n) step_fail(h, op, "C14:query_no_estimate", "p?gstrf with lwork=-1 returned info=%d (n=%d): no positive size estimate", (int)info, n);
    } else {
        superlumt_options_t o; memset(&o, 0, sizeof o);
        o.nprocs = P; o.fact = DOFACT; o.trans = NOTRANS; o.refact = NO; o.panel_size = g_ienv[1]; o.relax = g_ienv[2]; o.diag_pivot_thresh = 1.0; o.usepr = NO; o.SymmetricMode = NO; o.PrintStat = NO;
        o.perm_c = pc; o.perm_r = pr; o.work = NULL; o.lwork = -1;
        o.etree = hx_malloc(sizeof(int_t) * (n + 1)); o.colcnt_h = hx_malloc(sizeof(int_t) * (n + 1)); o.part_super_h = hx_malloc(sizeof(int_t) * (n + 1));
        SuperMatrix B, X; void *bval, *xval; make_dense_B(vt, n, 1, n, &bval, &B, 0); make_dense_B(vt, n, 1, n, &xval, &X, 0);
        void *R = hx_malloc(vt->rsize * (n + 1)), *C = hx_malloc(vt->rsize * (n + 1)), *fe = hx_malloc(vt->rsize * 2), *be = hx_malloc(vt->rsize * 2);
        void *a0 = hx_malloc(vt->esize * (M->nnz + 1)); memcpy(a0, M->val, vt->esize * M->nnz);
        equed_t eq = NOEQUIL; double rpg = 0, rc = 0; superlu_memusage_t mu; memset(&mu, 0, sizeof mu);
        g_phase = "query";
        LIB(vt->gssvx(P, &o, &M->A, pc, pr, &eq, R, C, &L, &U, &B, &X, &rpg, &rc, fe, be, &mu, &info));
        if (!(mu.total_needed > 0)) step_fail(h, op, "C14:query_no_estimate", "p?gssvx with lwork=-1 returned total_needed=%g (info=%d)", (double)mu.total_needed, (int)info);
        if (memcmp(a0, M->val, vt->esize * M->nnz)) step_fail(h, op, "C14:query_changed_A", "the workspace query modified the values of A");
        hx_free(o.etree); hx_free(o.colcnt_h); hx_free(o.part_super_h); hx_free(bval); hx_free(xval); hx_free(B.Store); hx_free(X.Store); hx_free(R); hx_free(C); hx_free(fe); hx_free(be); hx_free(a0);
    }
    feat_add("queries", 1);
    hx_free(pc); hx_free(pr);
}

static void hist_init(hist_t *h)
{
    memset(h, 0, sizeof *h);
    h->vt = vt_of(P_str("prec", "d")[0]); h->M = build_matrix(h->vt); h->n = h->M->n; int n = h->n;
    h->perm_c = hx_malloc(sizeof(int_t) * (n + 1)); h->perm_r = hx_malloc(sizeof(int_t) * (n + 1)); h->perm_c0 = hx_malloc(sizeof(int_t) * (n + 1));
    for (int i = 0; i < n; ++i) h->perm_r[i] = -7;
    case_order(h->M, h->perm_c0);
    features_of_matrix(h->M);
    h->u = 1.0; h->P = 1;
    hist_user_workspace(h);
}

static void run_history(hist_t *h, int rep)
{
    for (int k = 0; k < G->nops; ++k) {
        const char *op = G->ops[k]; h->step = k + 1 + 100 * rep;
        if (!strncmp(op, "FIRST", 5)) op_first(h, op, 0);
        else if (!strncmp(op, "REFACT", 6)) { char mb[16]; const char *mode = opt_str(op, "vals", "scale", mb, sizeof mb); if (h->have_factors) change_values(h, mode, (uint64_t)opt_int(op, "vseed", 1)); op_first(h, op, 1); }
        else if (!strncmp(op, "SOLVE", 5)) op_solve(h, op);
        else if (!strncmp(op, "DESTROY", 7)) op_destroy(h);
        else if (!strncmp(op, "OTHER", 5)) op_other(h, op);
        else if (!strncmp(op, "GSSVX", 5)) op_gssvx(h, op);
        else if (!strncmp(op, "GSSV", 4)) op_gssv(h, op);
        else if (!strncmp(op, "QUERY", 5)) op_query(h, op);
        else if (!strncmp(op, "TUNE", 4)) {
            /* the caller changes the blocking parameters between two first-time factorizations (never while factors are live:
               a refactorization reuses the partition computed under the old parameters) */
            if (h->have_factors) verdict_skip("TUNE while factors are live");
            g_ienv[1] = (int)opt_int(op, "panel", g_ienv[1]); g_ienv[2] = (int)opt_int(op, "relax", g_ienv[2]); g_ienv[3] = (int)opt_int(op, "maxsuper", g_ienv[3]);
            g_ienv[4] = (int)opt_int(op, "rowblk", g_ienv[4]); g_ienv[5] = (int)opt_int(op, "colblk", g_ienv[5]);
            feat_add("tunes", 1);
        }
        else if (!strncmp(op, "VALUES", 6)) { char mb[16]; change_values(h, opt_str(op, "vals", "scale", mb, sizeof mb), (uint64_t)opt_int(op, "vseed", 1)); }
    }
}

void prop_C08(void)
{
    hist_t h; hist_init(&h);
    /* histories under deliberately tight storage estimates (C05's share): the library's diagnosed stop is an admissible outcome */
    g_exit_policy = P_int("tight_fill", 0) ? EXITPOL_ALLOW_DIAG : EXITPOL_VIOLATION;
    run_history(&h, 0);
    op_destroy(&h);
    feat("nops", G->nops);
    verdict_pass();
}

static void c17_leak_fail(const char *when)
{
    long cnt = live_count(); if (cnt == 0) return;
    char d[1200]; live_describe(d, sizeof d, 6);
    /* signature: innermost library frames of the first survivor */
    char sg[200]; snprintf(sg, sizeof sg, "C17:leak:%.150s", d); char *e = strchr(sg + 9, ']'); if (e) e[1] = 0;
    /* strip size and raw addresses so that the signature is the call chain only */
    { char t[200]; size_t o = 0; const char *q = sg; while (*q && o + 1 < sizeof t) { if (q[0] == '0' && q[1] == 'x') { while (*q && *q != '<' && *q != ']') q++; if (q[0] == '<' && q[1] == '-') q += 2; continue; }
          if (*q == '[') { t[o++] = *q++; while (*q && *q != '@') q++; if (*q == '@') q++; continue; } t[o++] = *q++; } t[o] = 0; snprintf(sg, sizeof sg, "%s", t); }
    verdict_fail(sg, "%s %ld library blocks (%ld bytes) are still live: %s", when, cnt, live_bytes(), d);
}

/* C17 through the expert driver (all fact / trans / storage / nrhs combinations of C07's generator, including nrhs = 0, row-wise
   input and the FACTORED two-step history): after the call(s) and the documented destroy routines nothing may stay allocated */
#include "xd.h"
static void c17_expert(void)
{
    int t0 = count_tasks(), f0 = count_fds();
    live_mark_epoch();
    xd_t d; xd_first(&d);
    xd_check(&d, 1);
    fx_t *x = &d.x; int n = x->n;
    if (x->have_LU && d.info >= 0 && d.info <= n + 1) { g_track = 1; Destroy_SuperNode_SCP(&x->L); Destroy_CompCol_NCP(&x->U); g_track = 0; }
    c17_leak_fail("after the expert driver call(s) and the documented destroy calls");
    if (tasks_after(t0) != t0) verdict_fail("C17:thread_outlives_call", "threads before %d after %d", t0, count_tasks());
    if (count_fds() != f0) verdict_fail("C17:fd_leak", "open file descriptors before %d after %d", f0, count_fds());
    verdict_pass();
}

/* C17: everything allocated by the library during the history must be gone after the documented destroy calls */
void prop_C17(void)
{
    if (!strcmp(P_str("mode", "history"), "expert")) c17_expert();
    hist_t h; hist_init(&h);
    g_exit_policy = EXITPOL_VIOLATION;
    int t0 = count_tasks(), f0 = count_fds();
    live_mark_epoch();
    void *orig = hx_malloc(h.vt->esize * (h.M->nnz + 1)); memcpy(orig, h.M->val, h.vt->esize * h.M->nnz);
    for (int rep = 0; rep < 3; ++rep) {
        memcpy(h.M->val, orig, h.vt->esize * h.M->nnz); refresh_cval(h.M);
        run_history(&h, rep);
        op_destroy(&h);
        { char when[80]; snprintf(when, sizeof when, "after repetition %d of the history and the documented destroy calls", rep + 1); c17_leak_fail(when); }
    }
    if (tasks_after(t0) != t0) verdict_fail("C17:thread_outlives_call", "threads before %d after %d", t0, count_tasks());
    if (count_fds() != f0) verdict_fail("C17:fd_leak", "open file descriptors before %d after %d", f0, count_fds());
    feat("nops", G->nops);
    verdict_pass();
}

/* C18: run the prefix, then the probe (last op); the probe's result hash is exported and compared by the driver with a fresh-process run */
void prop_C18(void)
{
    hist_t h; hist_init(&h);
    g_exit_policy = EXITPOL_VIOLATION;
    run_history(&h, 0);
    char hx[32]; snprintf(hx, sizeof hx, "%016llx", (unsigned long long)h.probe_hash);
    feat_str("probe_hash", hx);
    op_destroy(&h);
    feat("nops", G->nops);
    verdict_pass();
}
