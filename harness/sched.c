/* sched.c — the SLU_MT_VERIF event sink: token-passing controlled scheduler, free-mode delay injection,
 * and the history monitor (C03/C04/C05 invariants). */
#define _GNU_SOURCE
#include "slu_mt_ddefs.h"
#include "hx.h"
#include <stdarg.h>
#include <pthread.h>
#include <sched.h>
#include <time.h>
#include <unistd.h>

#define MAXP 64
mon_stats g_mon;
int g_mon_enabled = 1;
int g_mon_strict_info = 0;
int g_mon_i3_strict = 0;      /* C03 only: report I3 violations (other properties just count them) */
int g_yield_prune_inner = 1; /* yield inside one interchange of pxgstrf_pruneL (case parameter yield_prune_inner=0 switches it off) */

static int      s_mode = SCHED_NONE, s_P = 1, s_strategy = 0, s_param = 0, s_delay_us = 100;
static uint64_t s_seed = 1, s_rng;
static pthread_mutex_t cm = PTHREAD_MUTEX_INITIALIZER;
static pthread_cond_t  cv[MAXP];
static int  reg[MAXP], alive[MAXP], prio[MAXP];
static int  nreg = 0, nalive = 0, cur = -1, active = 0;
static long spin_run = 0;                 /* consecutive spin events without progress */
static long ev_index = 0;
static long chg_at[8]; static int nchg = 0;
static int last_kind[MAXP]; static long last_a[MAXP], last_b[MAXP];
static __thread long tl_pnum = -1;
static int s_P_req = 1;
static __thread uint64_t tl_rng = 0;

static uint64_t sm64(uint64_t *s) { uint64_t z = (*s += 0x9E3779B97F4A7C15ull); z = (z ^ (z >> 30)) * 0xBF58476D1CE4E5B9ull;
    z = (z ^ (z >> 27)) * 0x94D049BB133111EBull; return z ^ (z >> 31); }

void sched_configure(int mode, int P, uint64_t seed, int strategy, int param, int delay_us)
{
    s_mode = mode; s_P = P; s_seed = seed; s_strategy = strategy; s_param = param; s_delay_us = delay_us;
#ifdef HX_NOHOOK
    /* library built without the hook guard: no events arrive, so the token-passing controller cannot be used (a token holder
       would spin for ever on a column owned by a worker that waits for the token); all runs are free-running */
    if (s_mode == SCHED_CONTROLLED) s_mode = SCHED_FREE;
#endif
}

/* ------------------------------------------------------------------ monitor state */
static int   m_n = 0;
static const int_t *m_etree = NULL;
static const pxgstrf_shared_t *m_sh = NULL;
static int  *m_final, *m_released, *m_taken, *m_panel_of, *m_fstdesc, *m_taker, *m_done_seen;
static int  *m_slot_end_of;               /* per leading H/relaxed column: end of reserved slot (static mode) */
static long *m_slot_end; static int m_have_map = 0, m_dynamic = 0; static long m_nzlumax = 0;
static int   m_npanels = 0, m_taken_cnt = 0;
static int   m_curpanel[MAXP], m_curw[MAXP];
static int  *m_chain[MAXP]; static int m_nchain[MAXP];
static int   m_dfs_open[MAXP], m_prune_open[MAXP];
static unsigned char *m_inchain[MAXP];
static long m_reading_rep[MAXP]; static int m_reading_copy[MAXP]; static long m_pruning_rep[MAXP]; static unsigned char *m_published;
static unsigned char *m_upd;              /* hash set for (panel,krep) pairs */
static long  m_upd_cap = 0;
static int   m_threads_took[MAXP];
static pthread_mutex_t mm = PTHREAD_MUTEX_INITIALIZER;
static char  m_fail_sig[128], m_fail_detail[512]; static int m_failed = 0;

static void mon_fail(const char *sig, const char *fmt, ...)
{
    if (m_failed) return;
    m_failed = 1;
    snprintf(m_fail_sig, sizeof m_fail_sig, "%s", sig);
    va_list ap; va_start(ap, fmt); vsnprintf(m_fail_detail, sizeof m_fail_detail, fmt, ap); va_end(ap);
    { char w[140]; snprintf(w, sizeof w, "mon:%s", sig); hx_ctx_add(w); }
}

static void mon_reset(void)
{
    memset(&g_mon, 0, sizeof g_mon); g_mon.min_slack = -1;
    m_failed = 0; m_sh = NULL; m_etree = NULL; m_n = 0; m_have_map = 0; m_taken_cnt = 0; m_npanels = 0;
    for (int i = 0; i < MAXP; ++i) { m_curpanel[i] = -1; m_nchain[i] = 0; m_dfs_open[i] = 0; m_prune_open[i] = 0; m_threads_took[i] = 0; m_inchain[i] = NULL; m_reading_rep[i] = -1; m_reading_copy[i] = 0; m_pruning_rep[i] = -1; }
    m_upd = NULL; m_slot_end = NULL; m_published = NULL;
}

static int upd_seen(long panel, long krep)
{
    if (!m_upd) return 0;
    uint64_t key = (uint64_t)panel * 1000003ull + (uint64_t)krep + 1;
    uint64_t h = key * 0x9E3779B97F4A7C15ull;
    long cap = m_upd_cap; uint64_t *tab = (uint64_t *)m_upd;
    for (long k = 0; k < cap; ++k) {
        uint64_t *e = &tab[(h + (uint64_t)k) % (uint64_t)cap];
        if (*e == 0) { *e = key; return 0; }
        if (*e == key) return 1;
    }
    return 0;
}

static void mon_parinit(long n, const int_t *etree, const pxgstrf_shared_t *sh)
{
    m_n = (int)n; m_etree = etree; m_sh = sh;
    m_final = hx_calloc(n + 1, sizeof(int)); m_released = hx_calloc(n + 1, sizeof(int)); m_taken = hx_calloc(n + 1, sizeof(int));
    m_panel_of = hx_calloc(n + 1, sizeof(int)); m_fstdesc = hx_calloc(n + 1, sizeof(int)); m_taker = hx_calloc(n + 1, sizeof(int));
    m_done_seen = hx_calloc(n + 1, sizeof(int));
    for (int p = 0; p < MAXP; ++p) { m_chain[p] = hx_calloc(n + 1, sizeof(int)); }
    m_upd_cap = 8 * n * 8 + 1024; m_upd = hx_calloc(m_upd_cap, sizeof(uint64_t));
    m_published = hx_calloc(n + 1, 1);
    /* panels */
    int np = 0, nrel = 0;
    for (int i = 0; i < n; ) {
        int w = sh->pan_status[i].size;
        if (w <= 0) { mon_fail("monitor:panel_partition", "pan_status[%d].size=%d at a panel start", i, w); break; }
        for (int j = i; j < i + w && j < n; ++j) m_panel_of[j] = i;
        if (sh->pan_status[i].type == RELAXED_SNODE) nrel++;
        np++; i += w;
    }
    m_npanels = np; g_mon.npanels = np; g_mon.nrelaxed = nrel;
    if (sh->tasks_remain != np) mon_fail("C04:tasks_remain_init", "tasks_remain=%ld after ParallelInit but %d panels", (long)sh->tasks_remain, np);
    /* first descendant (etree is postordered: descendants of c are [fstdesc(c), c)) */
    for (int i = 0; i < n; ++i) m_fstdesc[i] = i;
    for (int i = 0; i < n; ++i) { int d = etree[i]; if (d < n && d >= 0 && m_fstdesc[i] < m_fstdesc[d]) m_fstdesc[d] = m_fstdesc[i]; }
}

static void mon_presetmap(long n, const GlobalLU_t *Glu)
{
    m_dynamic = Glu->dynamic_snode_bound; m_nzlumax = 0;
    m_slot_end = hx_calloc(n + 2, sizeof(long)); m_slot_end_of = NULL;
    /* leading columns are those with map_in_sup[j] >= 0 ; slot end = start of next leading column */
    if (!m_dynamic) {
        long next = Glu->map_in_sup[n];
        for (long j = n - 1; j >= 0; --j) {
            if (Glu->map_in_sup[j] >= 0) { m_slot_end[j] = next; next = Glu->map_in_sup[j]; }
            else m_slot_end[j] = -1;
        }
        for (long j = 0; j < n; ++j) if (m_slot_end[j] >= 0 && m_slot_end[j] < Glu->map_in_sup[j])
            mon_fail("C05:slot_map_not_monotone", "slot of column %ld starts at %ld after its end %ld", j, (long)Glu->map_in_sup[j], m_slot_end[j]);
    }
    m_have_map = 1;
}

/* At take time of panel p the scheduler reports bcol = first column of the farthest busy panel.  The thread will
 * wait along the panel chain from panel(bcol) up to p.  I4: every descendant column of p that is not yet final
 * (pivoted and released) must belong to a panel on that chain ("all children finished except one chain of
 * still-busy descendants, and that chain is what the thread waits for").  Finality is tracked by the monitor from
 * RELEASE events, not from the racy panel STATE word (a pipelined parent may finish before the child's thread
 * gets round to writing STATE=DONE; that is benign). */
static int compute_chain(int pnum, int p, int w, long bcol)
{
    const pxgstrf_shared_t *sh = m_sh; int n = m_n;
    if (!m_inchain[pnum]) m_inchain[pnum] = hx_calloc(n + 1, 1);
    memset(m_inchain[pnum], 0, n + 1);
    int nch = 0;
    if (sh->pan_status[p].type == RELAXED_SNODE) { m_nchain[pnum] = 0; return 0; }
    if (bcol < 0 || bcol > p) { mon_fail("C03:I4_bcol_out_of_range", "panel %d taken with farthest busy column %ld", p, bcol); return -1; }
    int q = m_panel_of[bcol];
    while (q != p) {
        if (q > p || nch > n) { mon_fail("C03:I4_bcol_not_descendant", "panel %d taken: reported busy column %ld is not below it in the elimination tree", p, bcol); return -1; }
        int qw = sh->pan_status[q].size;
        for (int k = q; k < q + qw; ++k) m_inchain[pnum][k] = 1;
        m_chain[pnum][nch++] = q;
        int dad = m_etree[q + qw - 1];
        if (dad >= n) { mon_fail("C03:I4_bcol_not_descendant", "panel %d taken: reported busy column %ld is in another tree", p, bcol); return -1; }
        q = m_panel_of[dad];
    }
    m_nchain[pnum] = nch;
    int lo = p; for (int k = p; k < p + w; ++k) if (m_fstdesc[k] < lo) lo = m_fstdesc[k];
    int prev_unfinished = -1, unfinished = 0;
    for (int k = lo; k < p; ++k) {
        if (m_final[k]) continue;
        unfinished++;
        if (!m_inchain[pnum][k]) { mon_fail("C03:I4_unfinished_outside_chain", "panel %d handed out (busy chain starts at column %ld) while descendant column %d (panel %d) is not yet pivoted and is not on that chain", p, bcol, k, m_panel_of[k]); return -1; }
        if (prev_unfinished >= 0 && m_panel_of[prev_unfinished] != m_panel_of[k] && m_fstdesc[m_panel_of[k] + sh->pan_status[m_panel_of[k]].size - 1] > prev_unfinished)
            { mon_fail("C03:I4_two_unfinished_branches", "panel %d handed out while unfinished columns %d and %d lie on different branches", p, prev_unfinished, k); return -1; }
        prev_unfinished = k;
    }
    return unfinished;
}

static int s_trace = -1;
static void mon_event(int kind, long pnum, long a, long b, long c, const void *ctx)
{
    g_mon.events++;
    if (s_trace < 0) s_trace = getenv("HX_TRACE") ? 1 : 0;
    if (s_trace) { char tb[120]; int L = snprintf(tb, sizeof tb, "EV k=%d p=%ld a=%ld b=%ld c=%ld\n", kind, pnum, a, b, c); ssize_t w_ = write(2, tb, L); (void)w_; }
    const pxgstrf_shared_t *sh = m_sh;
    int n = m_n;
    /* I3: a thread is 'reading' the subscript list of supernode-rep r from a DFS_STEP until its next event of another kind */
    if (pnum >= 0 && pnum < MAXP && kind != SLUV_DFS_STEP && kind != SLUV_AWAIT_SPIN) m_reading_rep[pnum] = -1;
    switch (kind) {
    case SLUV_DFS_STEP:
        if (pnum < 0 || pnum >= MAXP) break;
        g_mon.dfs_steps++;
        m_reading_rep[pnum] = a; m_reading_copy[pnum] = (int)b;
        if (b && s_mode == SCHED_CONTROLLED && m_published && a >= 0 && a < m_n && !m_published[a] && g_mon_i3_strict)
            mon_fail("C03:I3_pruned_list_read_before_published", "thread %ld traverses the pruned subscript list of supernode rep %ld (column %ld) although no thread has finished rewriting it yet (the 'pruned' flag became visible too early)", pnum, a, c);
        /* strict only under the controlled scheduler: in free mode an action and the recording of its event are not atomic */
        if (b && s_mode == SCHED_CONTROLLED) for (int t = 0; t < MAXP; ++t) if (t != pnum && m_pruning_rep[t] == a)
            { g_mon.double_prune++; hx_ctx_add("concurrent_prune"); if (g_mon_i3_strict) mon_fail("C03:I3_dfs_reads_list_being_rewritten", "thread %ld starts traversing the pruned subscript list of supernode rep %ld (column %ld) while thread %d is still rewriting it (two threads prune the same supernode)", pnum, a, c, t); }
        break;
    case SLUV_PRUNE_STEP:
        if (pnum < 0 || pnum >= MAXP) break;
        if (b == 0) { m_pruning_rep[pnum] = a; g_mon.prune_steps++;
            if (s_mode == SCHED_CONTROLLED) for (int t = 0; t < MAXP; ++t) if (t != pnum && m_reading_rep[t] == a && m_reading_copy[t] == 1)
                { g_mon.double_prune += 1000; if (g_mon_i3_strict) mon_fail("C03:I3_prune_rewrites_list_being_read", "thread %ld starts rewriting the second subscript list of supernode rep %ld while thread %d is traversing that list", pnum, a, t); }
            for (int t = 0; t < MAXP; ++t) if (t != pnum && m_reading_rep[t] == a) { g_mon.prune_during_read++; break; }
            if (s_mode == SCHED_CONTROLLED) for (int t = 0; t < MAXP; ++t) if (t != pnum && m_pruning_rep[t] == a)
                { g_mon.double_prune++; hx_ctx_add("concurrent_prune"); if (g_mon_i3_strict) mon_fail("C03:I3_dfs_reads_list_being_rewritten", "thread %ld starts traversing the pruned subscript list of supernode rep %ld (column %ld) while thread %d is still rewriting it (two threads prune the same supernode)", pnum, a, c, t); } }
        else if (b == 2) { m_pruning_rep[pnum] = -1; if (m_published && a >= 0 && a < m_n) m_published[a] = 1; }
        else if (b == 3) { for (int t = 0; t < MAXP; ++t) if (t != pnum && m_pruning_rep[t] == a) { hx_ctx_add("concurrent_prune_interleaved"); g_mon.double_prune += 1000000; } }
        break;
    case SLUV_PRESETMAP: mon_presetmap(a, (const GlobalLU_t *)ctx); break;
    case SLUV_PARINIT_END: mon_parinit(a, (const int_t *)b, (const pxgstrf_shared_t *)ctx); break;
    case SLUV_SCHED_PICK: {
        if (!sh) break;
        int j = (int)a;
        if (j < 0 || j >= n) { mon_fail("C04:pick_out_of_range", "scheduler picked column %d", j); break; }
        if (m_panel_of[j] != j) mon_fail("C04:pick_not_panel_start", "scheduler picked column %d which is inside panel %d", j, m_panel_of[j]);
        if (++m_taken[j] != 1) mon_fail("C04:panel_taken_twice", "panel %d taken %d times", j, m_taken[j]);
        if (c != m_npanels - m_taken_cnt) mon_fail("C04:tasks_remain_mismatch", "tasks_remain=%ld but %d of %d panels taken", c, m_taken_cnt, m_npanels);
        m_taken_cnt++;
        m_taker[j] = (int)pnum;
        g_mon.takes++;
        if (b == CANPIPE) g_mon.pipe_takes++; else if (b == CANGO) g_mon.go_takes++; else g_mon.dad_takes++;
        if (b < CANGO && b != UNREADY) mon_fail("C04:pick_bad_state", "panel %d picked in state %ld", j, b);
        if (pnum >= 0 && pnum < MAXP) m_threads_took[pnum] = 1;
        break; }
    case SLUV_SCHED_TAKE: {
        if (!sh) break;
        const queue_t *q = &sh->taskq;
        if (q->tail > g_mon.tail_max) g_mon.tail_max = q->tail;
        if (q->tail > n) mon_fail("C04:queue_overflow", "task queue tail=%ld > n=%d", (long)q->tail, n);
        if (q->head > q->tail || q->count != q->tail - q->head) mon_fail("C04:queue_inconsistent", "head=%ld tail=%ld count=%ld", (long)q->head, (long)q->tail, (long)q->count);
        if (sh->tasks_remain != m_npanels - m_taken_cnt) mon_fail("C04:tasks_remain_mismatch", "tasks_remain=%ld after take, %d of %d taken", (long)sh->tasks_remain, m_taken_cnt, m_npanels);
        if (a != EMPTY && a >= 0 && a < n && pnum >= 0 && pnum < MAXP) {
            int p = (int)a, w = sh->pan_status[p].size;
            int unf = compute_chain((int)pnum, p, w, b);
            if (unf > 0) g_mon.takes_with_busy++;
            m_curpanel[pnum] = p; m_curw[pnum] = w;
        }
        break; }
    case SLUV_WAIT_COL: {
        if (!sh || pnum < 0 || pnum >= MAXP) break;
        g_mon.blocked_waits++;
        if (b < 0 || b >= n || !m_inchain[pnum] || !m_inchain[pnum][b])
            mon_fail("C03:I4_wait_outside_chain", "panel %ld waits for column %ld which is not on the busy chain it was handed", a, b);
        break; }
    case SLUV_RELEASE_PRE: {
        if (!sh) break;
        for (long j = a; j < a + b && j < n; ++j) {
            if (++m_released[j] != 1) mon_fail("C04:column_factored_twice", "column %ld released %d times", j, m_released[j]);
            m_final[j] = 1;
            if (m_taken[m_panel_of[j]] != 1) mon_fail("C04:release_of_untaken", "column %ld released but its panel %d was taken %d times", j, m_panel_of[j], m_taken[m_panel_of[j]]);
            if (pnum >= 0 && m_taker[m_panel_of[j]] != pnum) mon_fail("C04:release_by_other_thread", "column %ld released by thread %ld but panel taken by %d", j, pnum, m_taker[m_panel_of[j]]);
        }
        break; }
    case SLUV_COL_BEGIN: {
        if (!sh) break;
        if (a == b) { /* first column of the panel: every descendant column must be final */
            int p = (int)b, w = sh->pan_status[p].size;
            int lo = p; for (int k = p; k < p + w; ++k) if (m_fstdesc[k] < lo) lo = m_fstdesc[k];
            for (int k = lo; k < p; ++k) if (!m_final[k]) { mon_fail("C03:descendant_not_final", "panel %d starts its inner factorization while descendant column %d is not yet pivoted", p, k); break; }
        }
        break; }
    case SLUV_UPDATE_SRC: case SLUV_UPDATE_BUSY: {
        if (!sh) break;
        if (kind == SLUV_UPDATE_SRC) g_mon.updates_done++; else g_mon.updates_busy++;
        for (long k = c; k <= b && k < n; ++k) if (!m_final[k]) { mon_fail("C03:update_from_unfinished_column", "panel %ld updated by supernode [%ld,%ld] whose column %ld is not yet pivoted (%s)", a, c, b, k, kind == SLUV_UPDATE_SRC ? "done-phase" : "busy-phase"); break; }
        if (upd_seen(a, b)) mon_fail("C03:update_applied_twice", "panel %ld receives the update of supernode rep %ld twice", a, b);
        break; }
    case SLUV_UPDATE_COL: {
        if (!sh || pnum < 0 || pnum >= MAXP) break;
        long lo = c; if (m_curpanel[pnum] >= 0 && lo < m_curpanel[pnum]) lo = m_curpanel[pnum];
        for (long k = lo; k <= b && k < n; ++k) if (!m_final[k]) { mon_fail("C03:update_from_unfinished_column", "column %ld updated by in-panel segment [%ld,%ld] whose column %ld is not yet pivoted", a, lo, b, k); break; }
        break; }
    case SLUV_PANEL_DONE: {
        if (!sh) break;
        int p = (int)a, w = sh->pan_status[p].size;
        for (int k = p; k < p + w; ++k) if (!m_final[k]) { mon_fail("C04:panel_done_before_columns", "panel %d marked DONE but column %d not released", p, k); break; }
        m_done_seen[p] = 1;
        break; }
    case SLUV_NEWNSUPER: g_mon.newnsuper++; break;
    case SLUV_SINGULAR: {
        g_mon.singular_events++;
        if (c <= b) { /* nsupr == nsupc: the column has no candidate pivot row at all */
            hx_ctx_add("no_candidate_row");
            g_mon.no_candidate++;
        }
        break; }
    case SLUV_LUSUP_ALLOC: {
        g_mon.lusup_allocs++;
        const GlobalLU_t *Glu = (const GlobalLU_t *)ctx;
        if (!m_have_map || !Glu) break;
        long fs = a; if (Glu->map_in_sup[a] < 0) fs = a + Glu->map_in_sup[a];
        /* NB: map_in_sup[fs] already advanced */
        long end = c + b;
        if (!m_dynamic) {
            /* fs must be a leading column with a known slot end */
            if (fs < 0 || fs >= m_n + 1 || m_slot_end[fs] < 0) { mon_fail("C05:lusup_alloc_not_in_slot", "column %ld maps to leading column %ld which has no slot", a, fs); break; }
            long slack = m_slot_end[fs] - end;
            if (slack == 0) g_mon.tight_slots++;
            if (slack < 0) mon_fail("C05:supernode_outgrows_slot", "column %ld: L supernode storage [%ld,%ld) exceeds the slot reserved for leading column %ld (ends %ld)", a, c, end, fs, m_slot_end[fs]);
            if (g_mon.min_slack < 0 || slack < g_mon.min_slack) g_mon.min_slack = slack;
        } else {
            if (end > Glu->nzlumax) mon_fail("C05:lusup_beyond_nzlumax", "column %ld: storage end %ld > nzlumax %ld", a, end, (long)Glu->nzlumax);
            if (fs >= 0 && fs <= m_n && m_slot_end[fs] > 0) {   /* slot handed out by DynamicSetMap for this H-supernode */
                long slack = m_slot_end[fs] - end;
                if (slack == 0) g_mon.tight_slots++;
                if (slack < 0) mon_fail("C05:supernode_outgrows_dynamic_slot", "column %ld: L supernode storage [%ld,%ld) exceeds the slot [..,%ld) that pxgstrf_super_bnd_dfs/DynamicSetMap reserved for leading column %ld (dynamic supernode storage)", a, c, end, m_slot_end[fs], fs);
            }
        }
        break; }
    case SLUV_DYN_SETMAP: {
        g_mon.dyn_setmaps++;
        const GlobalLU_t *Glu = (const GlobalLU_t *)ctx;
        if (Glu && c + b > Glu->nzlumax) mon_fail("C05:dyn_slot_beyond_nzlumax", "dynamic slot [%ld,%ld) > nzlumax %ld", c, c + b, (long)Glu->nzlumax);
        if (m_have_map && a >= 0 && a <= m_n) m_slot_end[a] = c + b;
        break; }
    case SLUV_PRUNE_BEGIN: g_mon.prunes++; if (pnum >= 0 && pnum < MAXP) { m_prune_open[pnum] = 1;
            for (int t = 0; t < MAXP; ++t) if (t != pnum && m_dfs_open[t]) { g_mon.prune_while_dfs++; break; } } break;
    case SLUV_PRUNE_END: if (pnum >= 0 && pnum < MAXP) m_prune_open[pnum] = 0; break;
    case SLUV_DFS_BEGIN: if (pnum >= 0 && pnum < MAXP) m_dfs_open[pnum] = 1; break;
    case SLUV_DFS_END: if (pnum >= 0 && pnum < MAXP) m_dfs_open[pnum] = 0; break;
    case SLUV_PARFINAL: {
        if (!sh || ctx != (const void *)sh) break;
        /* end-state checks only when the factorization ran to completion (no early memory-error return) */
        int all = 1; for (int j = 0; j < n; ++j) if (m_released[j] != 1) all = 0;
        if (m_taken_cnt == m_npanels || g_mon_strict_info) {
            if (sh->tasks_remain != 0) mon_fail("C04:tasks_remain_nonzero_at_end", "tasks_remain=%ld at finalize", (long)sh->tasks_remain);
            if (!all) mon_fail("C04:column_not_factored", "some column was not factored exactly once");
            for (int i = 0; i < n; i += sh->pan_status[i].size) { if (sh->pan_status[i].size <= 0) break;
                if (sh->pan_status[i].state != DONE) { mon_fail("C04:panel_not_done_at_end", "panel %d in state %d at finalize", i, sh->pan_status[i].state); break; } }
        }
        int tt = 0; for (int t = 0; t < MAXP; ++t) tt += m_threads_took[t];
        g_mon.threads_with_panels = tt;
        m_sh = NULL;     /* shared structure is about to be freed */
        break; }
    default: break;
    }
}

/* ------------------------------------------------------------------ controller */
extern void hx_controller_abort(const char *sig, const char *detail);  /* runner.c: emits verdict, _exit */

static int blocked[MAXP]; static long idle_rounds = 0;
/* free-running mode: progress-based deadlock detection (independent of wall-clock time).  Every event that is not a spin step
   advances a global epoch; a spinning thread counts its consecutive spin steps within the current epoch.  When all nprocs
   workers have started, none has exited... and every live one has spun FM_THRESH times within the same epoch, no thread can ever
   make progress again (a spinning worker only waits for another worker's progress). */
#define FM_THRESH 100000L
static long fm_epoch = 1; static long fm_seen[MAXP], fm_spin[MAXP]; static int fm_alive[MAXP]; static int fm_started = 0;
static void fm_reset(void) { fm_epoch = 1; fm_started = 0; for (int t = 0; t < MAXP; ++t) { fm_seen[t] = 0; fm_spin[t] = 0; fm_alive[t] = 0; } }
static void fm_event(int kind, long pnum, long a)
{
    if (pnum < 0 || pnum >= MAXP) return;
    int spinning = (kind == SLUV_AWAIT_SPIN) || (kind == SLUV_SCHED_EXIT && a == EMPTY);
    if (!spinning) {   /* entering the scheduler, leaving its critical section empty-handed and announcing a wait are neutral */
        if (kind != SLUV_SCHED_ENTER && kind != SLUV_WAIT_COL && kind != 100 && !(kind == SLUV_SCHED_TAKE && a == EMPTY)) __atomic_add_fetch(&fm_epoch, 1, __ATOMIC_SEQ_CST);
        return; }
    long e = __atomic_load_n(&fm_epoch, __ATOMIC_SEQ_CST);
    if (fm_seen[pnum] != e) { __atomic_store_n(&fm_spin[pnum], 0, __ATOMIC_SEQ_CST); __atomic_store_n(&fm_seen[pnum], e, __ATOMIC_SEQ_CST); }
    long c = __atomic_add_fetch(&fm_spin[pnum], 1, __ATOMIC_SEQ_CST);
    if (c < FM_THRESH || (c & 4095)) return;
    if (__atomic_load_n(&fm_started, __ATOMIC_SEQ_CST) < s_P_req) return;
    int live = 0;
    for (int t = 0; t < MAXP; ++t) if (__atomic_load_n(&fm_alive[t], __ATOMIC_SEQ_CST)) {
        live++;
        if (__atomic_load_n(&fm_seen[t], __ATOMIC_SEQ_CST) != e || __atomic_load_n(&fm_spin[t], __ATOMIC_SEQ_CST) < FM_THRESH) return;
    }
    if (!live || __atomic_load_n(&fm_epoch, __ATOMIC_SEQ_CST) != e) return;
    static char dd[600]; size_t o = snprintf(dd, sizeof dd, "free-running mode: all %d live workers have each spun %ld times in the scheduler / on a column status without any worker making progress in between (lost update or cyclic wait)", live, FM_THRESH);
    if (m_sh) snprintf(dd + o, sizeof dd - o, "; tasks_remain=%ld qcount=%ld", (long)m_sh->tasks_remain, (long)m_sh->taskq.count);
    hx_controller_abort("C04:deadlock", dd);
}
static void deadlock_abort(void)
{
    static char dd[1500]; size_t o = snprintf(dd, sizeof dd, "every live thread is spin-waiting and %ld full rounds over all of them brought no progress (lost wake-up or cyclic wait); last event per thread (pnum:kind:a:b):", idle_rounds);
    for (int t = 0; t < s_P && o < sizeof dd - 40; ++t) o += snprintf(dd + o, sizeof dd - o, " %d:%s%d:%ld:%ld", t, alive[t] ? "" : "x", last_kind[t], last_a[t], last_b[t]);
    if (m_sh) o += snprintf(dd + o, sizeof dd - o, " tasks_remain=%ld qcount=%ld", (long)m_sh->tasks_remain, (long)m_sh->taskq.count);
    hx_controller_abort("C04:deadlock", dd);
}
/* A thread that reported a spin step (await loop, or the scheduler had nothing for it) is treated as blocked until some
 * thread makes progress; the next thread is chosen among the unblocked ones by the case's strategy.  When every live
 * thread is blocked a "round" is counted and all are retried; 64 rounds without progress = deadlock. */
static int pick_next(int self, int spinning)
{
    int cand[MAXP], nc = 0;
    (void)spinning;
    for (int t = 0; t < s_P; ++t) if (alive[t] && reg[t] && !blocked[t]) cand[nc++] = t;
    if (nc == 0) {
        int any = 0; for (int t = 0; t < s_P; ++t) if (alive[t] && reg[t]) { any = 1; blocked[t] = 0; cand[nc++] = t; }
        if (!any) return -1;
        if (++idle_rounds > 64) deadlock_abort();
    }
    if (s_strategy == 2) { int best = cand[0]; for (int i = 1; i < nc; ++i) if (prio[cand[i]] > prio[best]) best = cand[i]; return best; }
    if (s_strategy == 1 && self >= 0 && alive[self] && !blocked[self]) { int k = s_param > 1 ? s_param : 8; if (sm64(&s_rng) % (uint64_t)k) return self; }
    return cand[sm64(&s_rng) % (uint64_t)nc];
}

static void wait_token(int p) { while (cur != p) pthread_cond_wait(&cv[p], &cm); }

void ctl_thread_start(long pnum, void *arg)
{
    (void)arg;
    tl_pnum = pnum;
    __atomic_add_fetch(&g_mon.thread_starts, 1, __ATOMIC_SEQ_CST);
    if (pnum >= 0 && pnum < MAXP) { __atomic_store_n(&fm_alive[pnum], 1, __ATOMIC_SEQ_CST); __atomic_add_fetch(&fm_started, 1, __ATOMIC_SEQ_CST); }
    if (s_mode != SCHED_CONTROLLED || !active || pnum < 0 || pnum >= MAXP) return;
    HX_LOCK(&cm);
    reg[pnum] = 1; alive[pnum] = 1; nreg++; nalive++;
    if (nreg == s_P) { cur = pick_next(-1, 0); pthread_cond_signal(&cv[cur]); }
    wait_token((int)pnum);
    pthread_mutex_unlock(&cm);
}
void ctl_thread_exit(long pnum, void *arg)
{
    (void)arg;
    __atomic_add_fetch(&g_mon.thread_exits, 1, __ATOMIC_SEQ_CST);
    if (pnum >= 0 && pnum < MAXP) { __atomic_store_n(&fm_alive[pnum], 0, __ATOMIC_SEQ_CST); __atomic_add_fetch(&fm_epoch, 1, __ATOMIC_SEQ_CST); }
    if (s_mode != SCHED_CONTROLLED || !active || pnum < 0 || pnum >= MAXP) return;
    HX_LOCK(&cm);
    alive[pnum] = 0; nalive--;
    if (nalive > 0) { cur = pick_next(-1, 0); pthread_cond_signal(&cv[cur]); } else cur = -1;
    pthread_mutex_unlock(&cm);
}

static int is_yield_kind(int k)
{
    switch (k) {
    case SLUV_SCHED_ENTER: case SLUV_SCHED_EXIT: case SLUV_RELEASE_PRE: case SLUV_RELEASE_POST: case SLUV_PANEL_DONE_PRE:
    case SLUV_PANEL_DONE: case SLUV_NEWNSUPER: case SLUV_U_ALLOC: case SLUV_LSUB_ALLOC: case SLUV_DYN_SETMAP: case SLUV_AWAIT_SPIN:
    case SLUV_PRUNE_BEGIN: case SLUV_PRUNE_END: case SLUV_COL_BEGIN: case SLUV_DFS_BEGIN: case SLUV_DFS_END: case SLUV_DFS_STEP: case SLUV_PRUNE_STEP: return 1;
    case 100 /* HXV_LOCK_ACQUIRE (wrap.c) */: return 1;
    default: return 0;
    }
}

void slu_mt_verif_event(int kind, long pnum, long a, long b, long c, const void *ctx)
{
    /* the point inside one interchange of pxgstrf_pruneL is inert unless the case asks for it: even taking the monitor lock there
       widens the window of the listed finding D17 (concurrent prune of one supernode) enough to hit it in free-running mode */
    if (kind == SLUV_PRUNE_STEP && b == 3 && !g_yield_prune_inner) return;
    if (pnum < 0) pnum = tl_pnum;
    if (s_mode == SCHED_CONTROLLED && active && pnum >= 0 && pnum < MAXP && reg[pnum]) {
        /* only the token holder runs: no lock needed for the monitor */
        if (g_mon_enabled) mon_event(kind, pnum, a, b, c, ctx);
        last_kind[pnum] = kind; last_a[pnum] = a; last_b[pnum] = b;
        if (!is_yield_kind(kind)) return;
        if (kind == SLUV_PRUNE_STEP && b == 3 && !g_yield_prune_inner) return;
        int spinning = (kind == SLUV_AWAIT_SPIN) || (kind == SLUV_SCHED_EXIT && a == EMPTY);
        if (spinning) { g_mon.spins++; blocked[pnum] = 1; }
        else if (kind != SLUV_SCHED_ENTER && kind != 100 /* asking for a lock is not progress */) { idle_rounds = 0; for (int t = 0; t < s_P; ++t) blocked[t] = 0; }
        g_mon.yields++;
        HX_LOCK(&cm);
        ++ev_index;
        if (s_strategy == 2) for (int i = 0; i < nchg; ++i) if (chg_at[i] == ev_index) { int lowest = prio[0]; for (int t = 0; t < s_P; ++t) if (prio[t] < lowest) lowest = prio[t]; prio[pnum] = lowest - 1; }
        int nxt = pick_next((int)pnum, spinning);
        if (nxt >= 0 && nxt != pnum) { g_mon.switches++; cur = nxt; pthread_cond_signal(&cv[nxt]); wait_token((int)pnum); }
        pthread_mutex_unlock(&cm);
        return;
    }
    /* free / none mode (or events from the master thread before workers exist) */
    if (g_mon_enabled) { HX_LOCK(&mm); mon_event(kind, pnum, a, b, c, ctx); pthread_mutex_unlock(&mm); }
    if (kind == SLUV_AWAIT_SPIN) __atomic_add_fetch(&g_mon.spins, 1, __ATOMIC_RELAXED);
    if (s_mode == SCHED_FREE && active) fm_event(kind, pnum, a);
    if (s_mode == SCHED_FREE && active && is_yield_kind(kind) && !(kind == SLUV_PRUNE_STEP && b == 3 && !g_yield_prune_inner)) {
        if (!tl_rng) tl_rng = s_seed * 0x2545F4914F6CDD1Dull + (uint64_t)(pnum + 2) * 0x9E3779B97F4A7C15ull + 1;
        uint64_t r = sm64(&tl_rng);
        int q = s_param > 0 ? s_param : 4;
        if (kind == SLUV_AWAIT_SPIN) { if ((r & 63) == 0) sched_yield(); return; }
        if (r % (uint64_t)q == 0) {
            switch ((r >> 8) % 3) {
            case 0: sched_yield(); break;
            case 1: { struct timespec ts = { 0, (long)((r >> 16) % (uint64_t)(s_delay_us > 0 ? s_delay_us : 1)) * 1000L }; nanosleep(&ts, NULL); break; }
            default: { volatile int x = 0; for (int i = 0; i < (int)((r >> 16) & 1023); ++i) x += i; break; }
            }
        }
    }
}

/* nohook variant (library built without the hook guard, free-running only): model a worker that loses its CPU for a long time.
   Called from the pthread_mutex_lock wrapper; at most two stalls of 30-90 ms per factorization, taken with probability 1/300 per
   lock acquisition by a worker thread. */
static int fm_stalls = 0;
void sched_maybe_long_stall(void)
{
#ifdef HX_NOHOOK
    if (s_mode != SCHED_FREE || !active || tl_pnum < 0 || s_P_req < 2) return;
    if (!tl_rng) tl_rng = s_seed * 0x2545F4914F6CDD1Dull + (uint64_t)(tl_pnum + 2) * 0x9E3779B97F4A7C15ull + 1;
    uint64_t r = sm64(&tl_rng);
    if (r % 300 != 0) return;
    if (__atomic_add_fetch(&fm_stalls, 1, __ATOMIC_SEQ_CST) > 2) return;
    struct timespec ts = { 0, (long)(30 + (r >> 20) % 60) * 1000000L }; nanosleep(&ts, NULL);
    __atomic_add_fetch(&g_mon.long_stalls, 1, __ATOMIC_RELAXED);
#endif
}

/* called from the pthread_mutex_lock wrapper when a library mutex is busy */
int ctl_mutex_wait_step(void)
{
    long pnum = tl_pnum;
    if (!(s_mode == SCHED_CONTROLLED && active && pnum >= 0 && pnum < MAXP && reg[pnum])) return 0;
    g_mon.spins++; g_mon.mutex_waits++; blocked[pnum] = 1;
    HX_LOCK(&cm);
    int nxt = pick_next((int)pnum, 1);
    if (nxt >= 0 && nxt != pnum) { g_mon.switches++; cur = nxt; pthread_cond_signal(&cv[nxt]); wait_token((int)pnum); }
    pthread_mutex_unlock(&cm);
    return 1;
}

int sched_current_P(void) { return s_P_req > 0 ? s_P_req : 1; }

void sched_begin_factor(int P)
{
    s_P = P > MAXP ? MAXP : P; s_P_req = P;
    mon_reset(); fm_reset(); fm_stalls = 0;
    nreg = 0; nalive = 0; cur = -1; spin_run = 0; ev_index = 0; idle_rounds = 0; for (int t = 0; t < MAXP; ++t) blocked[t] = 0;
    s_rng = s_seed ^ 0xD1B54A32D192ED03ull;
    for (int t = 0; t < MAXP; ++t) { reg[t] = 0; alive[t] = 0; pthread_cond_init(&cv[t], NULL); }
    /* PCT priorities: random permutation */
    for (int t = 0; t < s_P; ++t) prio[t] = t;
    for (int t = s_P - 1; t > 0; --t) { int j = (int)(sm64(&s_rng) % (uint64_t)(t + 1)); int x = prio[t]; prio[t] = prio[j]; prio[j] = x; }
    nchg = s_param < 0 ? 0 : (s_param > 8 ? 8 : s_param);
    long horizon = 60L * (P_int("n", 10)) + 50;
    for (int i = 0; i < nchg; ++i) chg_at[i] = 1 + (long)(sm64(&s_rng) % (uint64_t)horizon);
    active = 1;
    if (P > MAXP && s_mode == SCHED_CONTROLLED) s_mode = SCHED_FREE;
}

void sched_end_factor(void)
{
    active = 0;
    if (m_failed) verdict_fail(m_fail_sig, "%s", m_fail_detail);
}
