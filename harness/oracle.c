/* oracle.c — precision-generic helpers: element access, matrix building, C09 predicate, dense extraction, hashes. */
#define _GNU_SOURCE
#include "slu_mt_ddefs.h"
#include "hx.h"
#include <math.h>

void el_get(const slu_vt *vt, const void *arr, long k, ld *re, ld *im)
{
    switch (vt->prec) {
    case 's': *re = ((const float *)arr)[k]; *im = 0; break;
    case 'd': *re = ((const double *)arr)[k]; *im = 0; break;
    case 'c': *re = ((const float *)arr)[2 * k]; *im = ((const float *)arr)[2 * k + 1]; break;
    default:  *re = ((const double *)arr)[2 * k]; *im = ((const double *)arr)[2 * k + 1]; break;
    }
}
void el_set(const slu_vt *vt, void *arr, long k, double re, double im)
{
    switch (vt->prec) {
    case 's': ((float *)arr)[k] = (float)re; break;
    case 'd': ((double *)arr)[k] = re; break;
    case 'c': ((float *)arr)[2 * k] = (float)re; ((float *)arr)[2 * k + 1] = (float)im; break;
    default:  ((double *)arr)[2 * k] = re; ((double *)arr)[2 * k + 1] = im; break;
    }
}
double rs_get(const slu_vt *vt, const void *arr, long k) { return vt->is_single ? (double)((const float *)arr)[k] : ((const double *)arr)[k]; }
void rs_set(const slu_vt *vt, void *arr, long k, double v) { if (vt->is_single) ((float *)arr)[k] = (float)v; else ((double *)arr)[k] = v; }

ld zq_abs(zq a) { return hypotl(a.re, a.im); }
zq zq_div(zq a, zq b)
{
    zq r; ld d = b.re * b.re + b.im * b.im;
    r.re = (a.re * b.re + a.im * b.im) / d; r.im = (a.im * b.re - a.re * b.im) / d; return r;
}

uint64_t fnv1a(const void *p, size_t len, uint64_t h)
{
    const unsigned char *s = p; if (!h) h = 0xcbf29ce484222325ull;
    for (size_t i = 0; i < len; ++i) { h ^= s[i]; h *= 0x100000001b3ull; }
    return h;
}

int is_perm(const int_t *p, int n)
{
    char *seen = hx_calloc(n + 1, 1); int ok = 1;
    for (int i = 0; i < n && ok; ++i) { if (p[i] < 0 || p[i] >= n || seen[p[i]]) ok = 0; else seen[p[i]] = 1; }
    hx_free(seen); return ok;
}

/* ------------------------------------------------------------------ matrix from the case */
hx_matrix *build_matrix(const slu_vt *vt)
{
    hx_matrix *M = hx_calloc(1, sizeof *M);
    M->vt = vt; M->n = (int)P_int("n", 1); M->m = (int)P_int("m", M->n); M->nnz = G->ne;
    M->stype = !strcmp(P_str("stype", "NC"), "NR");
    int m = M->m, n = M->n; long nnz = M->nnz;
    int nmaj = M->stype ? m : n;
    M->val = hx_malloc(vt->esize * (nnz ? nnz : 1)); M->ind = hx_malloc(sizeof(int_t) * (nnz ? nnz : 1)); M->ptr = hx_malloc(sizeof(int_t) * (nmaj + 1));
    long *cnt = hx_calloc(nmaj + 1, sizeof(long));
    for (long k = 0; k < nnz; ++k) { int maj = M->stype ? G->ei[k] : G->ej[k]; cnt[maj + 1]++; }
    for (int j = 0; j < nmaj; ++j) cnt[j + 1] += cnt[j];
    for (int j = 0; j <= nmaj; ++j) M->ptr[j] = (int_t)cnt[j];
    for (long k = 0; k < nnz; ++k) {
        int maj = M->stype ? G->ei[k] : G->ej[k], mino = M->stype ? G->ej[k] : G->ei[k];
        long pos = cnt[maj]++; M->ind[pos] = mino; el_set(vt, M->val, pos, G->er[k], G->ei_im[k]);
    }
    hx_free(cnt);
    M->A.Stype = M->stype ? SLU_NR : SLU_NC; M->A.Dtype = vt->dtype; M->A.Mtype = SLU_GE; M->A.nrow = m; M->A.ncol = n;
    if (M->stype) { M->st.nr.nnz = nnz; M->st.nr.nzval = M->val; M->st.nr.colind = M->ind; M->st.nr.rowptr = M->ptr; }
    else { M->st.nc.nnz = nnz; M->st.nc.nzval = M->val; M->st.nc.rowind = M->ind; M->st.nc.colptr = M->ptr; }
    M->A.Store = &M->st;
    /* mathematical CSC copy in extended precision, values as stored (rounded to working precision) */
    M->cptr = hx_calloc(n + 1, sizeof(int_t)); M->cind = hx_malloc(sizeof(int_t) * (nnz ? nnz : 1)); M->cval = hx_malloc(sizeof(zq) * (nnz ? nnz : 1));
    long *c2 = hx_calloc(n + 1, sizeof(long));
    for (int maj = 0; maj < nmaj; ++maj) for (long p = M->ptr[maj]; p < M->ptr[maj + 1]; ++p) { int j = M->stype ? M->ind[p] : maj; c2[j + 1]++; }
    for (int j = 0; j < n; ++j) c2[j + 1] += c2[j];
    for (int j = 0; j <= n; ++j) M->cptr[j] = (int_t)c2[j];
    for (int maj = 0; maj < nmaj; ++maj) for (long p = M->ptr[maj]; p < M->ptr[maj + 1]; ++p) {
        int j = M->stype ? M->ind[p] : maj, i = M->stype ? maj : M->ind[p];
        long pos = c2[j]++; M->cind[pos] = i; el_get(vt, M->val, p, &M->cval[pos].re, &M->cval[pos].im);
    }
    hx_free(c2);
    return M;
}
void free_matrix(hx_matrix *M) { if (!M) return; hx_free(M->val); hx_free(M->ind); hx_free(M->ptr); hx_free(M->cptr); hx_free(M->cind); hx_free(M->cval); hx_free(M); }

#define PAD_SENTINEL 7.77e3
void make_dense_B(const slu_vt *vt, int n, int nrhs, int ldb, void **bval, SuperMatrix *B, int from_case)
{
    long tot = (long)ldb * (nrhs > 0 ? nrhs : 0);
    void *b = hx_malloc(vt->esize * (tot ? tot : 1));
    for (int j = 0; j < nrhs; ++j) for (int i = 0; i < ldb; ++i) {
        double re = PAD_SENTINEL, im = vt->is_complex ? -PAD_SENTINEL : 0;
        if (i < n) { long k = (long)j * n + i; if (from_case && k < G->nb) { re = G->br[k]; im = G->bi[k]; } else { re = 1.0 + 0.25 * ((i * 7 + j * 3) % 5); im = vt->is_complex ? 0.5 - 0.125 * ((i + j) % 3) : 0; } }
        el_set(vt, b, (long)j * ldb + i, re, im);
    }
    DNformat *st = hx_calloc(1, sizeof *st); st->lda = ldb; st->nzval = b;
    B->Stype = SLU_DN; B->Dtype = vt->dtype; B->Mtype = SLU_GE; B->nrow = n; B->ncol = nrhs; B->Store = st;
    *bval = b;
}

uint64_t hash_supermatrix_nc(const slu_vt *vt, SuperMatrix *A)
{
    uint64_t h = 0;
    h = fnv1a(&A->Stype, sizeof A->Stype, h); h = fnv1a(&A->Dtype, sizeof A->Dtype, h); h = fnv1a(&A->Mtype, sizeof A->Mtype, h);
    h = fnv1a(&A->nrow, sizeof A->nrow, h); h = fnv1a(&A->ncol, sizeof A->ncol, h);
    NCformat *s = A->Store; int nmaj = (A->Stype == SLU_NR) ? A->nrow : A->ncol;
    h = fnv1a(&s->nnz, sizeof s->nnz, h);
    h = fnv1a(s->colptr, sizeof(int_t) * (nmaj + 1), h);
    h = fnv1a(s->rowind, sizeof(int_t) * s->nnz, h);
    h = fnv1a(s->nzval, vt->esize * s->nnz, h);
    return h;
}

/* ------------------------------------------------------------------ C09 predicate */
static char vmsg[400];
#define BAD(...) do { snprintf(vmsg, sizeof vmsg, __VA_ARGS__); goto bad; } while (0)
typedef struct { long b, e; int who; } ext_t;
static int ext_cmp(const void *a, const void *b) { const ext_t *x = a, *y = b; return x->b < y->b ? -1 : x->b > y->b ? 1 : (x->e < y->e ? -1 : x->e > y->e); }

const char *validate_LU(const slu_vt *vt, int n, SuperMatrix *L, SuperMatrix *U, int check_topo, int check_nnz)
{
    int *mark = NULL, *cover = NULL; ext_t *ex1 = NULL, *ex2 = NULL, *ex3 = NULL;
    if (!L->Store || !U->Store) { snprintf(vmsg, sizeof vmsg, "header:null_store"); return vmsg; }
    if (L->Stype != SLU_SCP || L->Mtype != SLU_TRLU || (int)L->Dtype != vt->dtype || L->nrow != n || L->ncol != n) { snprintf(vmsg, sizeof vmsg, "header:L stype=%d mtype=%d dtype=%d %dx%d", L->Stype, L->Mtype, L->Dtype, (int)L->nrow, (int)L->ncol); return vmsg; }
    if (U->Stype != SLU_NCP || U->Mtype != SLU_TRU || (int)U->Dtype != vt->dtype || U->nrow != n || U->ncol != n) { snprintf(vmsg, sizeof vmsg, "header:U stype=%d mtype=%d dtype=%d %dx%d", U->Stype, U->Mtype, U->Dtype, (int)U->nrow, (int)U->ncol); return vmsg; }
    SCPformat *Ls = L->Store; NCPformat *Us = U->Store;
    int nsuper = Ls->nsuper;
    if (nsuper < 0 || nsuper >= n) { snprintf(vmsg, sizeof vmsg, "nsuper_range:nsuper=%d n=%d", nsuper, n); return vmsg; }
    mark = hx_calloc(n + 1, sizeof(int)); cover = hx_calloc(n + 1, sizeof(int));
    ex1 = hx_calloc(nsuper + 1, sizeof(ext_t)); ex2 = hx_calloc(nsuper + 1, sizeof(ext_t)); ex3 = hx_calloc(n + 1, sizeof(ext_t));
    for (int i = 0; i < n; ++i) mark[i] = -1;
    long cntL = 0, cntUin = 0, cntU = 0;
    for (int s = 0; s <= nsuper; ++s) {
        long fs = Ls->sup_to_colbeg[s], fe = Ls->sup_to_colend[s];
        if (fs < 0 || fe > n || fs >= fe) BAD("sup_range:supernode %d has columns [%ld,%ld)", s, fs, fe);
        for (long j = fs; j < fe; ++j) { if (Ls->col_to_sup[j] != s) BAD("col_to_sup_mismatch:col %ld in supernode %d but col_to_sup=%d", j, s, (int)Ls->col_to_sup[j]); if (cover[j]++) BAD("sup_overlap:column %ld in two supernodes", j); }
        long rb = Ls->rowind_colbeg[fs], re = Ls->rowind_colend[fs];
        long nsupc = fe - fs, nsupr = re - rb;
        if (rb < 0 || re < rb || nsupr < nsupc || nsupr > n) BAD("rowind_extent:supernode %d rows [%ld,%ld) for %ld columns", s, rb, re, nsupc);
        for (long k = 0; k < nsupr; ++k) {
            long r = Ls->rowind[rb + k];
            if (k < nsupc) { if (r != fs + k) BAD("rowind_not_own_columns:supernode %d (cols %ld..%ld) row list position %ld holds %ld", s, fs, fe - 1, k, r); }
            else { if (r < fe || r >= n) BAD("rowind_range:supernode %d (cols %ld..%ld) has row %ld", s, fs, fe - 1, r); if (mark[r] == s) BAD("rowind_duplicate:supernode %d row %ld twice", s, r); }
            if (r >= 0 && r < n) mark[r] = s;
        }
        long vb0 = Ls->nzval_colbeg[fs];
        for (long j = fs; j < fe; ++j) {
            long vb = Ls->nzval_colbeg[j], ve = Ls->nzval_colend[j];
            if (vb < 0 || ve - vb != nsupr) BAD("nzval_extent:col %ld values [%ld,%ld) but supernode has %ld rows", j, vb, ve, nsupr);
            if (vb != vb0 + (j - fs) * nsupr) BAD("nzval_stride:col %ld of supernode %d starts at %ld, expected %ld", j, s, vb, vb0 + (j - fs) * nsupr);
            cntL += nsupr - (j - fs); cntUin += j - fs + 1;
        }
        ex1[s].b = rb; ex1[s].e = re; ex1[s].who = s;
        ex2[s].b = vb0; ex2[s].e = vb0 + nsupc * nsupr; ex2[s].who = s;
    }
    for (int j = 0; j < n; ++j) if (cover[j] != 1) BAD("sup_partition:column %d covered %d times", j, cover[j]);
    qsort(ex1, nsuper + 1, sizeof(ext_t), ext_cmp); qsort(ex2, nsuper + 1, sizeof(ext_t), ext_cmp);
    for (int s = 1; s <= nsuper; ++s) {
        if (ex1[s].b < ex1[s - 1].e) BAD("rowind_overlap:row lists of supernodes %d and %d overlap ([%ld,%ld) and [%ld,%ld))", ex1[s - 1].who, ex1[s].who, ex1[s - 1].b, ex1[s - 1].e, ex1[s].b, ex1[s].e);
        if (ex2[s].b < ex2[s - 1].e) BAD("nzval_overlap:values of supernodes %d and %d overlap", ex2[s - 1].who, ex2[s].who);
    }
    /* U */
    for (int i = 0; i < n; ++i) mark[i] = -1;
    for (int j = 0; j < n; ++j) {
        long b = Us->colbeg[j], e = Us->colend[j];
        if (b < 0 || e < b || e - b > n) BAD("ucol_extent:U column %d extent [%ld,%ld)", j, b, e);
        long fs = Ls->sup_to_colbeg[Ls->col_to_sup[j]];
        for (long k = b; k < e; ++k) {
            long r = Us->rowind[k];
            if (r < 0 || r >= fs) BAD("urow_range:U(%ld,%d) not strictly above supernode start %ld", r, j, fs);
            if (mark[r] == j) BAD("urow_duplicate:U column %d row %ld twice", j, r);
            mark[r] = j;
            if (check_topo && Ls->col_to_sup[r] >= Ls->col_to_sup[j]) BAD("topo_U:U(%ld,%d): supernode %d of the row is not before supernode %d of the column", r, j, (int)Ls->col_to_sup[r], (int)Ls->col_to_sup[j]);
        }
        cntU += e - b;
        ex3[j].b = b; ex3[j].e = e; ex3[j].who = j;
    }
    qsort(ex3, n, sizeof(ext_t), ext_cmp);
    for (int j = 1; j < n; ++j) if (ex3[j].b < ex3[j - 1].e && ex3[j].e > ex3[j].b && ex3[j - 1].e > ex3[j - 1].b) BAD("ucol_overlap:U columns %d and %d overlap", ex3[j - 1].who, ex3[j].who);
    if (check_topo) for (int s = 0; s <= nsuper; ++s) {
        long fs = Ls->sup_to_colbeg[s], fe = Ls->sup_to_colend[s]; long rb = Ls->rowind_colbeg[fs], re = Ls->rowind_colend[fs];
        for (long k = rb + (fe - fs); k < re; ++k) { long r = Ls->rowind[k]; if (Ls->col_to_sup[r] <= s) BAD("topo_L:L(%ld, supernode %d): row's supernode %d is not after it", r, s, (int)Ls->col_to_sup[r]); }
    }
    if (check_nnz) {
        if (Ls->nnz != cntL) BAD("nnzL:L.nnz=%ld but counted %ld", (long)Ls->nnz, cntL);
        if (Us->nnz != cntU + cntUin) BAD("nnzU:U.nnz=%ld but counted %ld", (long)Us->nnz, cntU + cntUin);
    }
    hx_free(mark); hx_free(cover); hx_free(ex1); hx_free(ex2); hx_free(ex3);
    return NULL;
bad:
    hx_free(mark); hx_free(cover); hx_free(ex1); hx_free(ex2); hx_free(ex3);
    return vmsg;
}

dense_lu *extract_LU(const slu_vt *vt, int n, SuperMatrix *L, SuperMatrix *U)
{
    dense_lu *D = hx_calloc(1, sizeof *D);
    D->n = n; D->L = hx_calloc((size_t)n * n + 1, sizeof(zq)); D->U = hx_calloc((size_t)n * n + 1, sizeof(zq));
    SCPformat *Ls = L->Store; NCPformat *Us = U->Store;
    D->nsuper = Ls->nsuper; D->monotone = 1;
    long prev = -1;
    for (int s = 0; s <= Ls->nsuper; ++s) {
        long fs = Ls->sup_to_colbeg[s], fe = Ls->sup_to_colend[s]; long rb = Ls->rowind_colbeg[fs], re = Ls->rowind_colend[fs];
        if (fs < prev) D->monotone = 0; prev = fs;
        if (fe - fs > D->maxsup) D->maxsup = (int)(fe - fs);
        for (long j = fs; j < fe; ++j) {
            long vb = Ls->nzval_colbeg[j];
            for (long k = 0; k < re - rb; ++k) {
                long r = Ls->rowind[rb + k]; zq v; el_get(vt, Ls->nzval, vb + k, &v.re, &v.im);
                if (r <= j) { D->U[(size_t)j * n + r] = v; D->nnzU++; } else { D->L[(size_t)j * n + r] = v; D->nnzL++; }
            }
            D->L[(size_t)j * n + j].re = 1; D->L[(size_t)j * n + j].im = 0;
        }
    }
    for (int j = 0; j < n; ++j) for (long k = Us->colbeg[j]; k < Us->colend[j]; ++k) {
        long r = Us->rowind[k]; zq v; el_get(vt, Us->nzval, k, &v.re, &v.im); D->U[(size_t)j * n + r] = v; D->nnzU++; }
    return D;
}
void free_dense_lu(dense_lu *D) { if (!D) return; hx_free(D->L); hx_free(D->U); hx_free(D); }

uint64_t hash_LU(const slu_vt *vt, SuperMatrix *L, SuperMatrix *U)
{
    uint64_t h = 0; SCPformat *Ls = L->Store; NCPformat *Us = U->Store; int n = L->ncol;
    h = fnv1a(&Ls->nsuper, sizeof Ls->nsuper, h); h = fnv1a(&Ls->nnz, sizeof Ls->nnz, h); h = fnv1a(&Us->nnz, sizeof Us->nnz, h);
    for (int s = 0; s <= Ls->nsuper; ++s) {
        long fs = Ls->sup_to_colbeg[s], fe = Ls->sup_to_colend[s]; long rb = Ls->rowind_colbeg[fs], re = Ls->rowind_colend[fs];
        h = fnv1a(&fs, sizeof fs, h); h = fnv1a(&fe, sizeof fe, h);
        h = fnv1a(&Ls->rowind[rb], sizeof(int_t) * (re - rb), h);
        for (long j = fs; j < fe; ++j) h = fnv1a((char *)Ls->nzval + vt->esize * Ls->nzval_colbeg[j], vt->esize * (re - rb), h);
    }
    for (int j = 0; j < n; ++j) { long b = Us->colbeg[j], e = Us->colend[j];
        h = fnv1a(&Us->rowind[b], sizeof(int_t) * (e - b), h); h = fnv1a((char *)Us->nzval + vt->esize * b, vt->esize * (e - b), h); }
    h = fnv1a(Ls->col_to_sup, sizeof(int_t) * n, h);
    return h;
}

/* ------------------------------------------------------------------ structural rank (augmenting paths) */
static int sr_aug(int j, const int_t *ptr, const int_t *ind, int *rowmatch, int *seen, int stamp)
{
    for (long p = ptr[j]; p < ptr[j + 1]; ++p) { int r = ind[p]; if (seen[r] == stamp) continue; seen[r] = stamp;
        if (rowmatch[r] < 0 || sr_aug(rowmatch[r], ptr, ind, rowmatch, seen, stamp)) { rowmatch[r] = j; return 1; } }
    return 0;
}
int structural_rank(int n, const int_t *ptr, const int_t *ind)
{
    int *rowmatch = hx_malloc(sizeof(int) * (n + 1)), *seen = hx_calloc(n + 1, sizeof(int)); int rank = 0;
    for (int i = 0; i < n; ++i) rowmatch[i] = -1;
    for (int j = 0; j < n; ++j) if (sr_aug(j, ptr, ind, rowmatch, seen, j + 1)) rank++;
    hx_free(rowmatch); hx_free(seen); return rank;
}
