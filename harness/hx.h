/* hx.h — shared declarations of the verification runner (precision independent part).
 * Must be included AFTER one of slu_mt_?defs.h (gives int_t, SuperMatrix, options ...). */
#ifndef HX_H
#define HX_H
#include <stdint.h>
#include <stddef.h>
#include <pthread.h>
int __real_pthread_mutex_lock(pthread_mutex_t *);
#define HX_LOCK(m) __real_pthread_mutex_lock(m)   /* harness-owned mutexes bypass the wrapped lock */

typedef long double ld;

/* ------------------------------------------------------------------ per-precision vtable */
typedef struct {
    char prec;            /* 's' 'd' 'c' 'z' */
    int  dtype;           /* SLU_S ... */
    int  is_complex, is_single;
    size_t esize;         /* bytes per matrix element */
    size_t rsize;         /* bytes per real scalar (R, C, ferr ...) */
    double eps;           /* unit roundoff u: 2^-53 / 2^-24 */
    void (*gssv)(int_t, SuperMatrix*, int_t*, int_t*, SuperMatrix*, SuperMatrix*, SuperMatrix*, int_t*);
    void (*gssvx)(int_t, superlumt_options_t*, SuperMatrix*, int_t*, int_t*, equed_t*, void*R, void*C,
                  SuperMatrix*, SuperMatrix*, SuperMatrix*, SuperMatrix*,
                  double *rpg, double *rcond, void *ferr, void *berr, superlu_memusage_t*, int_t*);
    void (*gstrf_init)(int_t, fact_t, trans_t, yes_no_t, int_t, int_t, double, yes_no_t, double,
                       int_t*, int_t*, void*, int_t, SuperMatrix*, SuperMatrix*, superlumt_options_t*, Gstat_t*);
    void (*gstrf)(superlumt_options_t*, SuperMatrix*, int_t*, SuperMatrix*, SuperMatrix*, Gstat_t*, int_t*);
    void (*gstrs)(trans_t, SuperMatrix*, SuperMatrix*, int_t*, int_t*, SuperMatrix*, Gstat_t*, int_t*);
    void (*gsrfs)(trans_t, SuperMatrix*, SuperMatrix*, SuperMatrix*, int_t*, int_t*, equed_t, void*R, void*C,
                  SuperMatrix*, SuperMatrix*, void *ferr, void *berr, Gstat_t*, int_t*);
    void (*gscon)(char*, SuperMatrix*, SuperMatrix*, double anorm, double *rcond, int_t*);
    void (*gsequ)(SuperMatrix*, void *r, void *c, double *rowcnd, double *colcnd, double *amax, int_t*);
    void (*laqgs)(SuperMatrix*, void *r, void *c, double rowcnd, double colcnd, double amax, equed_t*);
    double (*pivotgrowth)(int_t, SuperMatrix*, int_t*, SuperMatrix*, SuperMatrix*);
    double (*langs)(char*, SuperMatrix*);
    int_t (*sp_trsv)(char*, char*, char*, SuperMatrix*, SuperMatrix*, void *x, int_t*);
    int_t (*sp_gemv)(char*, double ar, double ai, SuperMatrix*, void *x, int_t incx, double br, double bi, void *y, int_t incy);
    int_t (*sp_gemm)(char*, int_t m, int_t n, int_t k, double ar, double ai, SuperMatrix*, void *b, int_t ldb,
                     double br, double bi, void *c, int_t ldc);
    void (*comprow_to_compcol)(int_t m, int_t n, int_t nnz, void *a, int_t *colind, int_t *rowptr,
                               void **at, int_t **rowind, int_t **colptr);
    void (*copy_compcol)(SuperMatrix*, SuperMatrix*);
    void (*readhb)(int_t*, int_t*, int_t*, void**, int_t**, int_t**);
    void (*readrb)(int_t*, int_t*, int_t*, void**, int_t**, int_t**);
    void (*readmt)(int_t*, int_t*, int_t*, void**, int_t**, int_t**);
    void (*finalize)(superlumt_options_t*, SuperMatrix*); /* pxgstrf_finalize */
    float (*query_space)(int_t, SuperMatrix*, SuperMatrix*, int_t, superlu_memusage_t*);
} slu_vt;

extern const slu_vt slu_vt_s, slu_vt_d, slu_vt_c, slu_vt_z;
const slu_vt *vt_of(char prec);

/* generic element access (by vtable) */
void   el_get(const slu_vt *vt, const void *arr, long k, ld *re, ld *im);
void   el_set(const slu_vt *vt, void *arr, long k, double re, double im);
double rs_get(const slu_vt *vt, const void *arr, long k);           /* real scalar arrays */
void   rs_set(const slu_vt *vt, void *arr, long k, double v);

/* ------------------------------------------------------------------ case store */
#define HX_MAXKV 256
typedef struct {
    /* scalar parameters */
    int nkv; char *key[HX_MAXKV]; char *val[HX_MAXKV];
    /* matrix entries in file order */
    long ne; int *ei, *ej; double *er, *ei_im;
    /* rhs values (column major, n*nrhs) */
    long nb; double *br, *bi;
    /* explicit column permutation */
    long npc; int *pc;
    /* extra integer / real lists (named) */
    int nlists; char *lname[32]; long llen[32]; double *lval[32];
    /* operation lines */
    int nops; char **ops;
    /* raw attachment (file body for C20) */
    char *blob; long bloblen;
} hx_case;

extern hx_case *G;                       /* current case (child) */
const char *P_str(const char *k, const char *dflt);
long        P_int(const char *k, long dflt);
double      P_dbl(const char *k, double dflt);
double     *P_list(const char *name, long *len);

/* ------------------------------------------------------------------ verdict / features */
void feat(const char *name, double v);
void feat_add(const char *name, double v);
void feat_str(const char *name, const char *v);
void verdict_pass(void) __attribute__((noreturn));
void verdict_fail(const char *sig, const char *fmt, ...) __attribute__((noreturn, format(printf,2,3)));
void verdict_skip(const char *why, ...) __attribute__((noreturn, format(printf,1,2)));
void note(const char *fmt, ...) __attribute__((format(printf,1,2)));
void hx_ctx_add(const char *word);   /* context word appended to every later failure signature (also survives a crash) */
extern int g_verdict_fd;

/* library exit policy (set by property code before calling the library) */
enum { EXITPOL_VIOLATION = 0, EXITPOL_ALLOW_DIAG = 1 };
extern int g_exit_policy;
extern const char *g_phase;              /* what the child is doing (for crash signatures) */

/* ------------------------------------------------------------------ allocator wrapper */
extern volatile int g_track;             /* 1 while inside a library call */
extern long g_alloc_seq;                 /* number of tracked allocation requests so far */
extern long g_fail_from;                 /* tracked request index (1-based) from which malloc returns NULL; 0 = never */
extern long g_fail_only;                 /* if >0 fail only this request */
extern long g_failed_count;
long  live_count(void); long live_bytes(void);
void  live_snapshot(long *count, long *bytes);
int   live_describe(char *buf, size_t len, int max);   /* describe surviving tracked blocks */
void  live_mark_epoch(void);             /* blocks allocated before now are ignored by live_* */
void *hx_malloc(size_t); void hx_free(void*); void *hx_calloc(size_t, size_t); void *hx_realloc(void*, size_t);
char *hx_strdup(const char*);
int   ptr_in_tracked_block(const void *p);
#define LIB(stmt) do { g_track = 1; stmt; g_track = 0; } while (0)

/* ------------------------------------------------------------------ tunables served by our sp_ienv */
extern int g_ienv[9];                    /* 1..8 */
extern int g_xerbla_calls; extern char g_xerbla_name[32]; extern int g_xerbla_pos;

/* ------------------------------------------------------------------ schedule control + monitor */
enum { SCHED_NONE = 0, SCHED_CONTROLLED = 1, SCHED_FREE = 2 };
void sched_configure(int mode, int P, uint64_t seed, int strategy, int param, int delay_us);
void sched_begin_factor(int P);          /* call right before a p?gstrf / driver call */
void sched_end_factor(void);             /* after it returned: final monitor checks, export features */
extern int g_mon_enabled;                /* monitor on/off */
extern int g_mon_strict_info; extern int g_mon_i3_strict; extern int g_yield_prune_inner;            /* 1: a thread returning early is a finding */
typedef struct {
    long events, yields, switches, takes, pipe_takes, dad_takes, go_takes, blocked_waits, spins, prunes,
         newnsuper, lusup_allocs, dyn_setmaps, threads_with_panels, npanels, nrelaxed, updates_done, updates_busy,
         max_fill_permille, min_slack, tail_max, thread_starts, thread_exits, prune_while_dfs, takes_with_busy, singular_events, no_candidate, tight_slots, dfs_steps, prune_steps, prune_during_read, double_prune, mutex_waits, long_stalls;
} mon_stats;
extern mon_stats g_mon;

/* ------------------------------------------------------------------ oracle library */
typedef struct { ld re, im; } zq;        /* extended complex */
typedef struct {
    int n;
    zq *L;   /* n*n column major, unit diagonal stored as 1 */
    zq *U;   /* n*n column major */
    int nsuper;
    int maxsup;      /* widest supernode */
    long nnzL, nnzU;
    int monotone;    /* supernode numbering monotone in column order */
} dense_lu;

int  is_perm(const int_t *p, int n);
int  structural_rank(int n, const int_t *ptr, const int_t *ind);   /* maximum matching of an n-column CSC pattern */
/* returns NULL if well-formed, else static description (C09 predicate) */
const char *validate_LU(const slu_vt *vt, int n, SuperMatrix *L, SuperMatrix *U, int check_topo, int check_nnz);
dense_lu *extract_LU(const slu_vt *vt, int n, SuperMatrix *L, SuperMatrix *U);
void free_dense_lu(dense_lu*);
uint64_t fnv1a(const void *p, size_t len, uint64_t h);
uint64_t hash_supermatrix_nc(const slu_vt *vt, SuperMatrix *A);   /* NC or NR: header + three arrays */
uint64_t hash_LU(const slu_vt *vt, SuperMatrix *L, SuperMatrix *U);

static inline ld zq_abs1(zq a) { return (a.re < 0 ? -a.re : a.re) + (a.im < 0 ? -a.im : a.im); }
ld zq_abs(zq a);
static inline zq zq_mul(zq a, zq b) { zq r = { a.re*b.re - a.im*b.im, a.re*b.im + a.im*b.re }; return r; }
static inline zq zq_sub(zq a, zq b) { zq r = { a.re-b.re, a.im-b.im }; return r; }
static inline zq zq_add(zq a, zq b) { zq r = { a.re+b.re, a.im+b.im }; return r; }
zq zq_div(zq a, zq b);

/* gamma(k) = k*u/(1-k*u) */
static inline ld gam(ld k, ld u) { return k*u/(1 - k*u); }

/* ------------------------------------------------------------------ matrix building */
typedef struct {
    const slu_vt *vt;
    int m, n; long nnz; int stype;        /* 0 NC, 1 NR */
    void *val; int_t *ind; int_t *ptr;    /* CSC (NC) or CSR (NR) arrays handed to the library */
    SuperMatrix A;                        /* header over the arrays */
    union { NCformat nc; NRformat nr; } st;
    /* column-oriented copy in extended precision for oracles (always CSC of the mathematical A) */
    int_t *cptr, *cind; zq *cval;
} hx_matrix;
hx_matrix *build_matrix(const slu_vt *vt);            /* from G */
void free_matrix(hx_matrix*);
void make_dense_B(const slu_vt *vt, int n, int nrhs, int ldb, void **bval, SuperMatrix *B, int from_case);

/* ------------------------------------------------------------------ property entry points */
void prop_C01(void); void prop_C02(void); void prop_C03(void); void prop_C04(void); void prop_C05(void);
void prop_C06(void); void prop_C07(void); void prop_C08(void); void prop_C09(void); void prop_C10(void);
void prop_C11(void); void prop_C12(void); void prop_C13(void); void prop_C14(void); void prop_C15(void);
void prop_C16(void); void prop_C17(void); void prop_C18(void); void prop_C19(void); void prop_C20(void);

#endif
