/* xd.h — expert-driver call state shared by props_b.c and props_hist.c */
#ifndef XD_H
#define XD_H
#include "fx.h"
typedef struct {
    fx_t x;
    superlumt_options_t opt;
    equed_t equed; void *R, *C;
    SuperMatrix B, X; void *bval, *xval, *b0, *a0; int nrhs, ldb, ldx;
    double rpg, rcond; void *ferr, *berr;
    superlu_memusage_t mu; int_t info;
    fact_t fact; trans_t trans;
} xd_t;
void xd_setup(xd_t *d);
void xd_call(xd_t *d, fact_t fact, trans_t trans, yes_no_t refact);
void xd_check(xd_t *d, int want);
void xd_first(xd_t *d);
fact_t parse_fact(const char *s); trans_t parse_trans(const char *s);
#endif
