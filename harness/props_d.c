/* props_d.c — C14 (workspace modes, allocation failure) and C15 (illegal arguments) */
#define _GNU_SOURCE
#include "slu_mt_ddefs.h"
#include "xd.h"
#include <math.h>
#include <unistd.h>

extern char g_last_fail_chain[512];

/* ================================================================== C14 */
static int ptr_in(const void *p, const void *base, long len) { return (const char *)p >= (const char *)base && (const char *)p < (const char *)base + len; }

void prop_C14(void)
{
    long lwork = P_int("lwork", 0);
    int faulty = (g_fail_from > 0 || g_fail_only > 0);
    g_exit_policy = (faulty || lwork > 0) ? EXITPOL_ALLOW_DIAG : EXITPOL_VIOLATION;   /* also covers get_perm_c in the set-up */
    xd_t d; xd_setup(&d);
    fx_t *x = &d.x; const slu_vt *vt = x->vt; int n = x->n;
    const char *api = P_str("api", "gssvx");
    void *work = NULL;
    if (lwork > 0) { work = hx_malloc((size_t)lwork); memset(work, 0x7F, (size_t)lwork); }
    g_exit_policy = (faulty || lwork > 0) ? EXITPOL_ALLOW_DIAG : EXITPOL_VIOLATION;
    if (faulty) hx_ctx_add("alloc_fault");
    if (lwork > 0) hx_ctx_add(lwork < P_int("need", 0) ? "user_workspace_short" : "user_workspace_ok");
    int_t info = -777;
    int t0 = count_tasks();
    int leakcheck = (int)P_int("leakcheck", 0);      /* C17's share: out-of-memory returns must not keep anything allocated */
    if (leakcheck) live_mark_epoch();
    if (!strcmp(api, "gssv")) {
        if (x->M->stype == 0 || 1) { sched_begin_factor(x->P); g_phase = "gssv"; LIB(vt->gssv(x->P, &x->M->A, x->perm_c, x->perm_r, &x->L, &x->U, &d.B, &info)); sched_end_factor(); }
        memcpy(d.xval, d.bval, 0);
    } else if (!strcmp(api, "gstrf")) {
        if (x->M->stype) verdict_skip("gstrf path needs NC");
        sched_begin_factor(x->P); g_track = 1;
        StatAlloc(n, x->P, g_ienv[1], g_ienv[2], &x->gs); StatInit(n, x->P, &x->gs);
        vt->gstrf_init(x->P, DOFACT, NOTRANS, NO, g_ienv[1], g_ienv[2], 1.0, NO, 0.0, x->perm_c, x->perm_r, work, (int_t)lwork, &x->M->A, &x->AC, &x->opt, &x->gs);
        g_phase = "gstrf";
        vt->gstrf(&x->opt, &x->AC, x->perm_r, &x->L, &x->U, &x->gs, &info);
        g_track = 0; sched_end_factor();
    } else {
        fact_t fact = parse_fact(P_str("fact", "DOFACT")); trans_t trans = parse_trans(P_str("trans", "N"));
        fx_options(x, &d.opt, fact, trans, NO); d.opt.work = work; d.opt.lwork = (int_t)lwork; d.fact = fact; d.trans = trans;
        if (trans == CONJ && vt->is_complex) hx_ctx_add("complex_conj");
        sched_begin_factor(x->P); g_phase = "gssvx";
        LIB(vt->gssvx(x->P, &d.opt, &x->M->A, x->perm_c, x->perm_r, &d.equed, d.R, d.C, &x->L, &x->U, &d.B, &d.X, &d.rpg, &d.rcond, d.ferr, d.berr, &d.mu, &info));
        sched_end_factor();
        d.info = info;
    }
    x->info = info;
    feat("info", info); feat("allocs", (double)g_alloc_seq); feat("failed", (double)g_failed_count); feat("lwork", (double)lwork);
    if (tasks_after(t0) != t0) verdict_fail("C14:thread_left_behind", "threads before %d after %d (info=%d)", t0, count_tasks(), (int)info);
    /* ---- classification */
    if (lwork == -1) {
        if (g_mon.takes != 0) verdict_fail("C14:query_factorized", "lwork=-1 but %ld panels were factored", g_mon.takes);
        if (!(info > n)) verdict_fail("C14:query_info", "lwork=-1 returned info=%d (expected estimate+n > n)", (int)info);
        if (!strcmp(api, "gssvx") && !(d.mu.total_needed > 0)) verdict_fail("C14:query_size", "workspace query returned total_needed=%g", (double)d.mu.total_needed);
        feat("query_bytes", (double)info - n);
        verdict_pass();
    }
    if (info < 0) verdict_fail("C14:negative_info", "info=%d", (int)info);
    if (info > n + 1 || (info == n + 1 && strcmp(api, "gssvx"))) {
        /* documented out-of-memory return */
        if (!faulty && lwork == 0) verdict_fail("C14:oom_without_fault", "info=%d > n without any injected failure", (int)info);
        feat("oom_return", 1);
        /* C17: when the failing request lies in the storage set-up of p?gstrf (before any factor storage exists) the simple driver
           hands nothing back, so nothing allocated by the library may survive the return */
        if (leakcheck && !strcmp(api, "gssv") && strstr(g_last_fail_chain, "gstrf_MemInit") && live_count() != 0) {
            char dsc[700]; live_describe(dsc, sizeof dsc, 5);
            verdict_fail("C17:leak_after_out_of_memory_return", "info=%d > n (failed request in %s): %ld library blocks (%ld bytes) are still allocated after the return: %s", (int)info, g_last_fail_chain, live_count(), live_bytes(), dsc); }
        if (leakcheck) feat("oom_leak_checked", strstr(g_last_fail_chain, "gstrf_MemInit") ? 1 : 0);
        verdict_pass();
    }
    if (info > 0 && info <= n) {
        if (faulty && g_failed_count > 0) verdict_fail("C14:alloc_failure_reported_as_singular", "an allocation failed (chain %s) but the call returned info=%d <= n", g_last_fail_chain, (int)info);
        if (lwork > 0) verdict_fail("C14:short_workspace_reported_as_singular", "user workspace of %ld bytes: info=%d <= n on a nonsingular matrix", lwork, (int)info);
        verdict_fail("oracle:info_nonzero", "info=%d on a nonsingular matrix", (int)info);
    }
    /* info == 0 (or n+1 from the expert driver): must be a genuine success */
    if (faulty && g_failed_count > 0) feat("success_after_failed_request", 1);
    if (!is_perm(x->perm_r, n) || !is_perm(x->perm_c, n)) verdict_fail("C14:success_with_bad_perm", "info=%d but a permutation is not a bijection (failed requests: %ld, chain %s)", (int)info, g_failed_count, g_last_fail_chain);
    { const char *bad = validate_LU(vt, n, &x->L, &x->U, 1, 1); if (bad) verdict_fail("C14:success_with_malformed_LU", "info=%d but %s (failed requests %ld)", (int)info, bad, g_failed_count); }
    x->D = extract_LU(vt, n, &x->L, &x->U);
    if (lwork > 0) {
        SCPformat *Ls = x->L.Store; NCPformat *Us = x->U.Store;
        const void *ptrs[] = { Ls->nzval, Ls->nzval_colbeg, Ls->nzval_colend, Ls->rowind, Ls->rowind_colbeg, Ls->rowind_colend, Ls->col_to_sup, Ls->sup_to_colbeg, Ls->sup_to_colend,
                               Us->nzval, Us->rowind, Us->colbeg, Us->colend };
        static const char *names[] = { "L.nzval", "L.nzval_colbeg", "L.nzval_colend", "L.rowind", "L.rowind_colbeg", "L.rowind_colend", "L.col_to_sup", "L.sup_to_colbeg", "L.sup_to_colend", "U.nzval", "U.rowind", "U.colbeg", "U.colend" };
        for (int k = 0; k < 13; ++k) if (!ptr_in(ptrs[k], work, lwork)) verdict_fail("C14:storage_outside_user_workspace", "%s lies outside the caller's %ld-byte workspace", names[k], lwork);
        feat("user_ws_success", 1);
    }
    if (!strcmp(api, "gssvx")) { xd_check(&d, 1); }
    else {
        csc_q F = factored_view(x->M); char msg[400];
        if (check_reconstruction(vt, &F, x->D, x->perm_r, x->perm_c, msg, sizeof msg)) verdict_fail("oracle:reconstruction_bound", "%s", msg);
        if (!strcmp(api, "gssv")) { double wr; if (check_residual(vt, &F, x->D, x->perm_r, x->perm_c, x->M->stype ? 1 : 0, d.bval, d.ldb, d.b0, d.ldb, d.nrhs, &wr, msg, sizeof msg)) verdict_fail("oracle:residual_bound", "%s", msg); }
    }
    verdict_pass();
}

/* ================================================================== C15 */
typedef struct {
    const slu_vt *vt; int n; hx_matrix *M;
    SuperMatrix A, L, U, B, X; NCformat Ast; DNformat Bst, Xst; SCPformat Lst; NCPformat Ust;
    int_t *perm_c, *perm_r; superlumt_options_t opt; equed_t equed; void *R, *C, *ferr, *berr;
    int_t nprocs; trans_t trans; char norm[2], uplo[2], tr[2], diag[2]; int incx, incy;
    Gstat_t gs;
} argset;

static uint64_t argset_hash(argset *a)
{
    const slu_vt *vt = a->vt; int n = a->n; uint64_t h = 0;
    NCformat *as = a->M->A.Store; h = fnv1a(as->nzval, vt->esize * as->nnz, h); h = fnv1a(as->rowind, sizeof(int_t) * as->nnz, h); h = fnv1a(as->colptr, sizeof(int_t) * (n + 1), h);
    h = fnv1a(((DNformat *)&a->Bst)->nzval, 0, h);
    h = fnv1a(a->perm_c, sizeof(int_t) * n, h); h = fnv1a(a->perm_r, sizeof(int_t) * n, h);
    h ^= hash_LU(vt, &a->L, &a->U);
    return h;
}

static int apply_violation(argset *a, const char *v)
{
    /* returns 0 if unknown */
    if (!strcmp(v, "nprocs.zero")) a->nprocs = 0; else if (!strcmp(v, "nprocs.neg")) a->nprocs = -3;
    else if (!strcmp(v, "A.nonsquare")) a->A.nrow = a->n + 1;
    else if (!strcmp(v, "A.negdim")) { a->A.nrow = -1; a->A.ncol = -1; }
    else if (!strcmp(v, "A.negcol")) a->A.ncol = -1;
    else if (!strcmp(v, "A.negrow")) a->A.nrow = -1;
    else if (!strcmp(v, "nrhs.zero")) { a->B.ncol = 0; a->X.ncol = 0; }       /* not a violation: an empty (legal) problem around another one */
    else if (!strcmp(v, "A.stype")) a->A.Stype = SLU_SC;
    else if (!strcmp(v, "A.stype_nr")) a->A.Stype = SLU_NR;
    else if (!strcmp(v, "A.dtype")) a->A.Dtype = (a->vt->dtype == SLU_D) ? SLU_S : SLU_D;
    else if (!strcmp(v, "A.mtype")) a->A.Mtype = SLU_TRL;
    else if (!strcmp(v, "B.negcol")) a->B.ncol = -1;
    else if (!strcmp(v, "B.lda")) a->Bst.lda = a->n - 1;
    else if (!strcmp(v, "B.stype")) a->B.Stype = SLU_NC;
    else if (!strcmp(v, "B.dtype")) a->B.Dtype = (a->vt->dtype == SLU_D) ? SLU_S : SLU_D;
    else if (!strcmp(v, "B.mtype")) a->B.Mtype = SLU_TRU;
    else if (!strcmp(v, "X.lda")) a->Xst.lda = a->n - 1;
    else if (!strcmp(v, "X.ncol")) a->X.ncol = a->B.ncol + 1;
    else if (!strcmp(v, "X.stype")) a->X.Stype = SLU_NC;
    else if (!strcmp(v, "X.dtype")) a->X.Dtype = (a->vt->dtype == SLU_D) ? SLU_S : SLU_D;
    else if (!strcmp(v, "opt.fact")) a->opt.fact = (fact_t)7;
    else if (!strcmp(v, "opt.trans")) a->opt.trans = (trans_t)9;
    else if (!strcmp(v, "opt.refact")) a->opt.refact = (yes_no_t)5;
    else if (!strcmp(v, "opt.usepr")) a->opt.usepr = (yes_no_t)3;
    else if (!strcmp(v, "opt.lwork")) a->opt.lwork = -2;
    else if (!strcmp(v, "equed.bad")) { a->opt.fact = FACTORED; a->equed = (equed_t)9; }
    else if (!strcmp(v, "R.nonpos")) { a->opt.fact = FACTORED; a->equed = ROW; rs_set(a->vt, a->R, a->n / 2, -1.0); }
    else if (!strcmp(v, "C.nonpos")) { a->opt.fact = FACTORED; a->equed = COL; rs_set(a->vt, a->C, a->n / 2, 0.0); }
    else if (!strcmp(v, "RC.nonpos")) { a->opt.fact = FACTORED; a->equed = BOTH; rs_set(a->vt, a->R, a->n / 2, -2.0); rs_set(a->vt, a->C, 0, -1.0); }
    else if (!strcmp(v, "trans.bad")) a->trans = (trans_t)7;
    else if (!strcmp(v, "L.nonsquare")) a->L.nrow = a->n + 1;
    else if (!strcmp(v, "L.stype")) a->L.Stype = SLU_NC;
    else if (!strcmp(v, "L.mtype")) a->L.Mtype = SLU_GE;
    else if (!strcmp(v, "L.dtype")) a->L.Dtype = (a->vt->dtype == SLU_D) ? SLU_S : SLU_D;
    else if (!strcmp(v, "U.nonsquare")) a->U.nrow = a->n + 1;
    else if (!strcmp(v, "U.stype")) a->U.Stype = SLU_NC;
    else if (!strcmp(v, "U.mtype")) a->U.Mtype = SLU_GE;
    else if (!strcmp(v, "U.dtype")) a->U.Dtype = (a->vt->dtype == SLU_D) ? SLU_S : SLU_D;
    else if (!strcmp(v, "norm.bad")) a->norm[0] = 'X';
    else if (!strcmp(v, "uplo.bad")) a->uplo[0] = 'X';
    else if (!strcmp(v, "tr.bad")) a->tr[0] = 'X';
    else if (!strcmp(v, "diag.bad")) a->diag[0] = 'X';
    else if (!strcmp(v, "incx.zero")) a->incx = 0;
    else if (!strcmp(v, "incy.zero")) a->incy = 0;
    else return 0;
    return 1;
}

void prop_C15(void)
{
    fx_t x; fx_init(&x);
    const slu_vt *vt = x.vt; int n = x.n;
    if (x.M->stype) verdict_skip("NC only");
    g_exit_policy = EXITPOL_VIOLATION;
    /* a valid factorization first, so that L, U and the permutations exist */
    fx_factor_gstrf(&x);
    if (x.info != 0) verdict_skip("singular");
    argset a; memset(&a, 0, sizeof a);
    a.vt = vt; a.n = n; a.M = x.M; a.A = x.M->A; a.L = x.L; a.U = x.U; a.perm_c = x.perm_c; a.perm_r = x.perm_r;
    int nrhs = 2; void *bval, *xval; make_dense_B(vt, n, nrhs, n, &bval, &a.B, 0); make_dense_B(vt, n, nrhs, n, &xval, &a.X, 0);
    a.Bst = *(DNformat *)a.B.Store; a.B.Store = &a.Bst; a.Xst = *(DNformat *)a.X.Store; a.X.Store = &a.Xst;
    a.R = hx_malloc(vt->rsize * (n + 1)); a.C = hx_malloc(vt->rsize * (n + 1)); for (int i = 0; i < n; ++i) { rs_set(vt, a.R, i, 1.0); rs_set(vt, a.C, i, 1.0); }
    a.ferr = hx_malloc(vt->rsize * 4); a.berr = hx_malloc(vt->rsize * 4);
    fx_options(&x, &a.opt, DOFACT, NOTRANS, NO);
    a.equed = NOEQUIL; a.nprocs = 1; a.trans = NOTRANS; strcpy(a.norm, "1"); strcpy(a.uplo, "L"); strcpy(a.tr, "N"); strcpy(a.diag, "U"); a.incx = 1; a.incy = 1;
    a.gs = x.gs;
    const char *routine = P_str("routine", "gssv");
    int expect = (int)P_int("expect", 1);
    /* apply the violations */
    char vl[200]; snprintf(vl, sizeof vl, "%s", P_str("viol", "nprocs.zero"));
    for (char *t = strtok(vl, ","); t; t = strtok(NULL, ",")) if (!apply_violation(&a, t)) verdict_skip("unknown violation %s", t);
    uint64_t hb = fnv1a(bval, vt->esize * (size_t)n * nrhs, 0), hx_ = fnv1a(xval, vt->esize * (size_t)n * nrhs, 0), h0 = argset_hash(&a);
    long live0 = live_count();
    SuperMatrix Lout = a.L, Uout = a.U;
    int_t info = -777; g_xerbla_calls = 0; g_xerbla_pos = 0; g_xerbla_name[0] = 0;
    double dd1 = 0, dd2 = 0, dd3 = 0; superlu_memusage_t mu; int has_info = 1;
    char expname[32];
    g_phase = "badarg";
    if (!strcmp(routine, "gssv")) { snprintf(expname, sizeof expname, "p%cgssv", vt->prec); LIB(vt->gssv(a.nprocs, &a.A, a.perm_c, a.perm_r, &Lout, &Uout, &a.B, &info)); }
    else if (!strcmp(routine, "gssvx")) { snprintf(expname, sizeof expname, "p%cgssvx", vt->prec); LIB(vt->gssvx(a.nprocs, &a.opt, &a.A, a.perm_c, a.perm_r, &a.equed, a.R, a.C, &Lout, &Uout, &a.B, &a.X, &dd1, &dd2, a.ferr, a.berr, &mu, &info)); }
    else if (!strcmp(routine, "gstrs")) { snprintf(expname, sizeof expname, "%cgstrs", vt->prec); LIB(vt->gstrs(a.trans, &a.L, &a.U, a.perm_r, a.perm_c, &a.B, &a.gs, &info)); }
    else if (!strcmp(routine, "gsrfs")) { snprintf(expname, sizeof expname, "%cgsrfs", vt->prec); LIB(vt->gsrfs(a.trans, &a.A, &a.L, &a.U, a.perm_r, a.perm_c, a.equed, a.R, a.C, &a.B, &a.X, a.ferr, a.berr, &a.gs, &info)); }
    else if (!strcmp(routine, "gscon")) { snprintf(expname, sizeof expname, "%cgscon", vt->prec); LIB(vt->gscon(a.norm, &a.L, &a.U, 1.0, &dd3, &info)); }
    else if (!strcmp(routine, "gsequ")) { snprintf(expname, sizeof expname, "%cgsequ", vt->prec); LIB(vt->gsequ(&a.A, a.R, a.C, &dd1, &dd2, &dd3, &info)); }
    else if (!strcmp(routine, "sp_trsv")) { snprintf(expname, sizeof expname, "sp_%ctrsv", vt->prec); LIB(vt->sp_trsv(a.uplo, a.tr, a.diag, &a.L, &a.U, xval, &info)); }
    else if (!strcmp(routine, "sp_gemv")) { snprintf(expname, sizeof expname, "sp_%cgemv", vt->prec); has_info = 0; LIB(vt->sp_gemv(a.tr, 1.0, 0.0, &a.A, bval, a.incx, 0.0, 0.0, xval, a.incy)); }
    else verdict_skip("unknown routine %s", routine);
    char ctx[64]; snprintf(ctx, sizeof ctx, "badarg_%s_%s", routine, P_str("viol", "?")); for (char *c = ctx; *c; ++c) if (*c == ',') *c = '+'; hx_ctx_add(ctx);
    feat("expect", expect); feat("info", info); feat("xerbla_pos", g_xerbla_pos);
    if (g_xerbla_calls != 1) verdict_fail("C15:error_handler_calls", "%s with %s: error handler called %d times (info=%d)", routine, P_str("viol", "?"), g_xerbla_calls, (int)info);
    if (g_xerbla_pos != expect) verdict_fail("C15:wrong_position", "%s with %s: error handler got position %d, documented position of the first offender is %d", routine, P_str("viol", "?"), g_xerbla_pos, expect);
    if (has_info && info != -expect) verdict_fail("C15:wrong_info", "%s with %s: info=%d, expected %d", routine, P_str("viol", "?"), (int)info, -expect);
    { char nm[32]; snprintf(nm, sizeof nm, "%s", g_xerbla_name); size_t L_ = strlen(nm); while (L_ && nm[L_ - 1] == ' ') nm[--L_] = 0; if (strcmp(nm, expname)) verdict_fail("C15:wrong_routine_name", "error handler called with name '%s', expected '%s'", nm, expname); }
    /* no side effects */
    a.A = x.M->A;  /* hash over the real arrays */
    if (argset_hash(&a) != h0) verdict_fail("C15:side_effect", "%s with %s modified A, the factors or a permutation", routine, P_str("viol", "?"));
    if (fnv1a(bval, vt->esize * (size_t)n * nrhs, 0) != hb) verdict_fail("C15:side_effect_B", "%s with %s modified B", routine, P_str("viol", "?"));
    if (fnv1a(xval, vt->esize * (size_t)n * nrhs, 0) != hx_) verdict_fail("C15:side_effect_X", "%s with %s modified X", routine, P_str("viol", "?"));
    if (live_count() != live0) { char dsc[600]; live_describe(dsc, sizeof dsc, 4); verdict_fail("C15:memory_retained", "%s with %s: %ld library blocks retained after the error return: %s", routine, P_str("viol", "?"), live_count() - live0, dsc); }
    verdict_pass();
}
