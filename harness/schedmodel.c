/* schedmodel.c — exhaustive exploration of the REAL scheduler code (pxgstrf_relax_snode, ParallelInit, pxgstrf_scheduler,
 * pxgstrf_mark_busy_descends) driven by P simulated workers, over every interleaving, for every postordered elimination
 * forest with n columns.  A simulated worker touches the shared fields exactly as p?gstrf_thread.c / p?gstrf_panel_bmod.c do:
 *   call scheduler -> (regular panel) mark busy descendants -> wait along the busy chain (column by column, as the busy-phase
 *   loop of p?gstrf_panel_bmod) -> release its columns one at a time (supernode membership chosen nondeterministically)
 *   -> STATE = DONE -> call scheduler again.
 * Checked in every reachable state / transition (C03 I4, C04):
 *   - every panel is taken exactly once; tasks_remain == number of untaken panels after every scheduler call;
 *   - queue tail <= n, head <= tail, count == tail-head;
 *   - at a take, every not-yet-released descendant column of the panel lies on the panel chain from the reported busy column;
 *   - a worker only ever waits for a column that is released or held by a running worker;
 *   - from every reachable state the terminal state (all panels DONE, tasks_remain == 0) is reachable (no deadlock, no lost wake-up).
 * usage: schedmodel n w relax P [maxstates]   -> prints one JSON line per run: {"forests":..,"states":..,"transitions":..,"violation":null|"..."} */
#include "slu_mt_ddefs.h"
#include <stdint.h>

#define MAXN 10
#define MAXP 4
typedef struct {
    int phase;          /* 0 idle (will call scheduler), 1 waiting, 2 releasing, 3 exited */
    int cur;            /* cur_pan as the real loop keeps it (EMPTY or last panel) */
    int bcol;           /* first column of the farthest busy supernode (after mark_busy_descends) */
    int kcol;           /* wait pointer / next column to release */
    int inner;          /* 1: inside the do-while of the busy-phase loop */
    int ksupno;
} worker_t;

typedef struct {
    /* scheduler-owned state */
    pan_status_t pan[MAXN + 1]; int_t spin[MAXN]; int_t fb[MAXN + 1]; int_t q[MAXN + 2]; int_t qh, qt, qc; int_t tasks;
    /* supernode bookkeeping written by the workers */
    int_t supno[MAXN + 1], xsup[MAXN + 1], xsup_end[MAXN + 1]; int_t nsuper;
    unsigned char final[MAXN], taken[MAXN];
    worker_t w[MAXP];
} mstate;

static int n_, P_, w_, relax_;
static int_t etree_[MAXN + 1];
static pxgstrf_shared_t sh; static GlobalLU_t glu; static Gstat_t gstat; static superlumt_options_t opt;
static int fstdesc[MAXN + 1], panel_of[MAXN + 1];
static char viol[400];

static void load(const mstate *s)
{
    memcpy(sh.pan_status, s->pan, sizeof(pan_status_t) * (n_ + 1)); memcpy((void *)sh.spin_locks, s->spin, sizeof(int_t) * n_); memcpy(sh.fb_cols, s->fb, sizeof(int_t) * (n_ + 1));
    memcpy(sh.taskq.queue, s->q, sizeof(int_t) * n_); sh.taskq.head = s->qh; sh.taskq.tail = s->qt; sh.taskq.count = s->qc; sh.tasks_remain = s->tasks;
    memcpy(glu.supno, s->supno, sizeof(int_t) * (n_ + 1)); memcpy(glu.xsup, s->xsup, sizeof(int_t) * (n_ + 1)); memcpy(glu.xsup_end, s->xsup_end, sizeof(int_t) * (n_ + 1)); glu.nsuper = s->nsuper;
}
static void save(mstate *s)
{
    memcpy(s->pan, sh.pan_status, sizeof(pan_status_t) * (n_ + 1)); memcpy(s->spin, (void *)sh.spin_locks, sizeof(int_t) * n_); memcpy(s->fb, sh.fb_cols, sizeof(int_t) * (n_ + 1));
    memcpy(s->q, sh.taskq.queue, sizeof(int_t) * n_); s->qh = sh.taskq.head; s->qt = sh.taskq.tail; s->qc = sh.taskq.count; s->tasks = sh.tasks_remain;
    memcpy(s->supno, glu.supno, sizeof(int_t) * (n_ + 1)); memcpy(s->xsup, glu.xsup, sizeof(int_t) * (n_ + 1)); memcpy(s->xsup_end, glu.xsup_end, sizeof(int_t) * (n_ + 1)); s->nsuper = glu.nsuper;
}

/* ---- state table */
typedef struct { mstate s; int nsucc; int succ[2 * MAXP + 2]; } node_t;
static node_t *nodes; static long nnodes, capnodes; static long *htab; static long hcap;
static long ntrans;
static uint64_t hash_state(const mstate *s) { const unsigned char *p = (const unsigned char *)s; uint64_t h = 0xcbf29ce484222325ull; for (size_t i = 0; i < sizeof *s; ++i) { h ^= p[i]; h *= 0x100000001b3ull; } return h; }
static long intern(const mstate *s, int *isnew)
{
    uint64_t h = hash_state(s);
    for (long k = 0; k < hcap; ++k) { long *e = &htab[(h + (uint64_t)k) % (uint64_t)hcap];
        if (*e < 0) { if (nnodes == capnodes) { capnodes *= 2; nodes = realloc(nodes, sizeof(node_t) * capnodes); }
            nodes[nnodes].s = *s; nodes[nnodes].nsucc = 0; *e = nnodes; *isnew = 1; return nnodes++; }
        if (!memcmp(&nodes[*e].s, s, sizeof *s)) { *isnew = 0; return *e; } }
    return -1;
}

static int all_done(const mstate *s) { for (int i = 0; i < n_; i += s->pan[i].size) { if (s->pan[i].size <= 0) return 0; if (s->pan[i].state != DONE) return 0; } return 1; }

static int check_take(mstate *s, int p, int jcol, int bcol)
{
    if (jcol < 0 || jcol >= n_ || panel_of[jcol] != jcol) { snprintf(viol, sizeof viol, "C04: scheduler returned column %d which is not a panel start", jcol); return 1; }
    if (s->taken[jcol]) { snprintf(viol, sizeof viol, "C04: panel %d taken twice", jcol); return 1; }
    s->taken[jcol] = 1;
    int untaken = 0; for (int i = 0; i < n_; i += s->pan[i].size) if (!s->taken[i]) untaken++;
    if (sh.tasks_remain != untaken) { snprintf(viol, sizeof viol, "C04: tasks_remain=%d but %d panels are untaken", (int)sh.tasks_remain, untaken); return 1; }
    if (sh.taskq.tail > n_ || sh.taskq.head > sh.taskq.tail || sh.taskq.count != sh.taskq.tail - sh.taskq.head) { snprintf(viol, sizeof viol, "C04: queue head=%d tail=%d count=%d n=%d", (int)sh.taskq.head, (int)sh.taskq.tail, (int)sh.taskq.count, n_); return 1; }
    if (sh.pan_status[jcol].type == RELAXED_SNODE) return 0;
    /* I4: unfinished descendants lie on the chain bcol -> jcol */
    unsigned char inchain[MAXN]; memset(inchain, 0, sizeof inchain);
    if (bcol < 0 || bcol > jcol) { snprintf(viol, sizeof viol, "C03: panel %d taken with busy column %d", jcol, bcol); return 1; }
    int q = panel_of[bcol], guard = 0;
    while (q != jcol) { if (q > jcol || ++guard > n_) { snprintf(viol, sizeof viol, "C03: panel %d taken: reported busy column %d is not below it in the tree", jcol, bcol); return 1; }
        int qw = sh.pan_status[q].size; for (int k = q; k < q + qw; ++k) inchain[k] = 1; int dad = etree_[q + qw - 1]; if (dad >= n_) { snprintf(viol, sizeof viol, "C03: busy column %d of panel %d is in another tree", bcol, jcol); return 1; } q = panel_of[dad]; }
    int wj = sh.pan_status[jcol].size; int lo = jcol; for (int k = jcol; k < jcol + wj; ++k) if (fstdesc[k] < lo) lo = fstdesc[k];
    for (int k = lo; k < jcol; ++k) if (!s->final[k] && !inchain[k]) { snprintf(viol, sizeof viol, "C03: panel %d handed out (busy chain from column %d) while descendant column %d is not final and not on that chain", jcol, bcol, k); return 1; }
    (void)p; return 0;
}

/* successors of state index si; returns 1 on violation */
static int expand(long si)
{
    for (int p = 0; p < P_; ++p) {
        mstate s = nodes[si].s; worker_t *wk = &s.w[p];
        int nalt = 1;
        for (int alt = 0; alt < nalt; ++alt) {
            s = nodes[si].s; wk = &s.w[p]; load(&s);
            int moved = 0;
            if (wk->phase == 0) {
                if (s.tasks > 0) {
                    int_t cur = wk->cur, bcol = 0;
                    int_t lbusy[MAXN + 1];
                    pxgstrf_scheduler(p, n_, etree_, &cur, &bcol, &sh);
                    wk->cur = (int)cur; moved = 1;
                    if (cur != EMPTY) {
                        save(&s);
                        if (check_take(&s, p, (int)cur, (int)bcol)) return 1;
                        if (sh.pan_status[cur].type == RELAXED_SNODE) { wk->phase = 2; wk->kcol = (int)cur; }
                        else { for (int i = 0; i <= n_; ++i) lbusy[i] = EMPTY;
                            pxgstrf_mark_busy_descends(p, cur, etree_, &sh, &bcol, lbusy);
                            wk->bcol = (int)bcol; wk->kcol = (int)bcol; wk->inner = 0; wk->phase = ((int)bcol < (int)cur) ? 1 : 2; if (wk->phase == 2) wk->kcol = (int)cur; }
                    } else save(&s);
                } else { wk->phase = 3; moved = 1; }
            } else if (wk->phase == 1) {
                /* busy-phase loop of p?gstrf_panel_bmod: kcol = bcol; while (kcol<jcol) { await(kcol); ksupno = supno[kcol]; do { kcol = etree[kcol]; if (kcol>=jcol) break; await(kcol); dad = supno[kcol]; } while (dad==ksupno); } */
                int jcol = wk->cur, k = wk->kcol;
                if (s.spin[k] == 0) {
                    moved = 1;
                    if (!s.final[k]) { snprintf(viol, sizeof viol, "C03: worker %d passes the wait on column %d which was never released (spin lock clear but column not final)", p, k); return 1; }
                    if (wk->inner && (int)s.supno[k] != wk->ksupno) {
                        wk->inner = 0;                 /* leave the do-while; the outer while re-awaits the same (released) column */
                    } else {
                        if (!wk->inner) wk->ksupno = (int)s.supno[k];
                        int nk = (int)etree_[k];
                        if (nk >= jcol) { wk->phase = 2; wk->kcol = jcol; wk->inner = 0; }
                        else { wk->kcol = nk; wk->inner = 1; }
                    }
                } else {
                    /* blocked: the awaited column must be held by a running worker */
                    int held = 0; for (int o = 0; o < P_; ++o) if (o != p && s.w[o].phase != 3 && s.w[o].cur != EMPTY && s.w[o].phase != 0 && panel_of[k] == s.w[o].cur) held = 1;
                    for (int o = 0; o < P_ && !held; ++o) if (o != p && s.w[o].phase == 0 && s.w[o].cur == panel_of[k] && s.pan[panel_of[k]].state != DONE) held = 1;
                    if (!held) { snprintf(viol, sizeof viol, "C03/C04: worker %d (panel %d) waits for column %d which no running worker holds (lost wake-up)", p, jcol, k); return 1; }
                }
            } else if (wk->phase == 2) {
                int jcol = wk->cur, wj = s.pan[jcol].size; moved = 1;
                if (s.pan[jcol].type == RELAXED_SNODE) {
                    s.nsuper++; s.xsup[s.nsuper] = jcol; s.xsup_end[s.nsuper] = jcol + wj;
                    for (int k = jcol; k < jcol + wj; ++k) { s.supno[k] = s.nsuper; s.spin[k] = 0; s.final[k] = 1; }
                    s.pan[jcol].state = DONE; wk->phase = 0;
                } else {
                    int jj = wk->kcol;
                    int canjoin = (jj > 0 && s.final[jj - 1] && etree_[jj - 1] == jj);
                    nalt = canjoin ? 2 : 1;
                    if (canjoin && alt == 1) { s.supno[jj] = s.supno[jj - 1]; s.xsup_end[s.supno[jj]] = jj + 1; }
                    else { s.nsuper++; s.supno[jj] = s.nsuper; s.xsup[s.nsuper] = jj; s.xsup_end[s.nsuper] = jj + 1; }
                    s.spin[jj] = 0; s.final[jj] = 1;
                    if (jj + 1 < jcol + wj) wk->kcol = jj + 1; else { s.pan[jcol].state = DONE; wk->phase = 0; }
                }
            }
            if (!moved) continue;
            int isnew; long ti = intern(&s, &isnew); if (ti < 0) { snprintf(viol, sizeof viol, "state table full"); return 1; }
            ntrans++;
            node_t *nd = &nodes[si]; int dup = 0; for (int k = 0; k < nd->nsucc; ++k) if (nd->succ[k] == ti) dup = 1;
            if (!dup && nd->nsucc < 2 * MAXP + 2) nd->succ[nd->nsucc++] = (int)ti;
        }
    }
    return 0;
}

static int explore(void)
{
    /* initial state from the real ParallelInit */
    pxgstrf_relax_t *rl = (pxgstrf_relax_t *)SUPERLU_MALLOC((n_ + 2) * sizeof(pxgstrf_relax_t));
    opt.etree = etree_; opt.relax = relax_; opt.panel_size = w_; opt.nprocs = P_;
    pxgstrf_relax_snode(n_, &opt, rl);
    ParallelInit(n_, rl, &opt, &sh);
    SUPERLU_FREE(rl);
    for (int i = 0; i < n_; ) { int w = sh.pan_status[i].size; if (w <= 0) { snprintf(viol, sizeof viol, "panel partition broken at %d", i); return 1; } for (int j = i; j < i + w; ++j) panel_of[j] = i; i += w; }
    for (int i = 0; i <= n_; ++i) fstdesc[i] = i;
    for (int i = 0; i < n_; ++i) { int d = etree_[i]; if (d < n_ && fstdesc[i] < fstdesc[d]) fstdesc[d] = fstdesc[i]; }
    mstate s0; memset(&s0, 0, sizeof s0);
    glu.nsuper = -1; for (int i = 0; i <= n_; ++i) { glu.supno[i] = 0; glu.xsup[i] = 0; glu.xsup_end[i] = 0; }
    save(&s0);
    for (int p = 0; p < P_; ++p) { s0.w[p].phase = 0; s0.w[p].cur = EMPTY; }
    { int np = 0; for (int i = 0; i < n_; i += sh.pan_status[i].size) np++; if (sh.tasks_remain != np) { snprintf(viol, sizeof viol, "C04: tasks_remain=%d after ParallelInit, %d panels", (int)sh.tasks_remain, np); return 1; } }
    nnodes = 0; for (long k = 0; k < hcap; ++k) htab[k] = -1;
    int isnew; intern(&s0, &isnew);
    for (long i = 0; i < nnodes; ++i) { if (expand(i)) return 1; if (nnodes > hcap / 2) { snprintf(viol, sizeof viol, "state budget exceeded"); return 2; } }
    /* co-reachability of the terminal states */
    char *ok = calloc(nnodes, 1); int changed = 1; long nterm = 0;
    for (long i = 0; i < nnodes; ++i) { const mstate *s = &nodes[i].s; int ex = 1; for (int p = 0; p < P_; ++p) if (s->w[p].phase != 3) ex = 0;
        if (ex) { if (!all_done(s) || s->tasks != 0) { snprintf(viol, sizeof viol, "C04: all workers exited but tasks_remain=%d / some panel not DONE", (int)s->tasks); free(ok); return 1; } ok[i] = 1; nterm++; } }
    while (changed) { changed = 0; for (long i = nnodes - 1; i >= 0; --i) if (!ok[i]) for (int k = 0; k < nodes[i].nsucc; ++k) if (ok[nodes[i].succ[k]]) { ok[i] = 1; changed = 1; break; } }
    for (long i = 0; i < nnodes; ++i) if (!ok[i]) { const mstate *s = &nodes[i].s; size_t o = snprintf(viol, sizeof viol, "C04: dead state (terminal state unreachable): tasks_remain=%d workers:", (int)s->tasks);
        for (int p = 0; p < P_; ++p) o += snprintf(viol + o, sizeof viol - o, " [ph%d pan%d k%d]", s->w[p].phase, s->w[p].cur, s->w[p].kcol); free(ok); return 1; }
    free(ok);
    if (!nterm) { snprintf(viol, sizeof viol, "C04: no terminal state reachable"); return 1; }
    ParallelFinalize(&sh);
    return 0;
}

/* enumerate postordered forests on n nodes: parent[j] in (j, n]; valid iff every subtree is a contiguous interval ending at its root */
static long forests, totstates, tottrans;
static int valid_postorder(void)
{
    int sz[MAXN + 1], fd[MAXN + 1]; for (int v = 0; v < n_; ++v) { sz[v] = 1; fd[v] = v; }
    for (int v = 0; v < n_; ++v) { int p = etree_[v]; if (p < n_) { sz[p] += sz[v]; if (fd[v] < fd[p]) fd[p] = fd[v]; } }
    for (int v = 0; v < n_; ++v) if (sz[v] != v - fd[v] + 1) return 0;
    return 1;
}
static int rec(int j)
{
    if (j == n_) { if (!valid_postorder()) return 0; forests++;
        glu.map_in_sup = NULL;
        int r = explore(); totstates += nnodes; tottrans += ntrans; ntrans = 0;
        if (r == 1) { char t[120]; size_t o = 0; for (int v = 0; v < n_; ++v) o += snprintf(t + o, sizeof t - o, "%d ", (int)etree_[v]); size_t L = strlen(viol); snprintf(viol + L, sizeof viol - L, " | etree=[%s] w=%d relax=%d P=%d", t, w_, relax_, P_); return 1; }
        return 0; }
    for (int p = j + 1; p <= n_; ++p) { etree_[j] = p; if (rec(j + 1)) return 1; }
    return 0;
}

int main(int argc, char **argv)
{
    if (argc < 5) { fprintf(stderr, "usage: schedmodel n w relax P\n"); return 2; }
    n_ = atoi(argv[1]); w_ = atoi(argv[2]); relax_ = atoi(argv[3]); P_ = atoi(argv[4]);
    if (n_ < 1 || n_ > 9 || P_ < 1 || P_ > MAXP) return 2;
    hcap = argc > 5 ? atol(argv[5]) : 4000003; htab = malloc(sizeof(long) * hcap); capnodes = 1 << 14; nodes = malloc(sizeof(node_t) * capnodes);
    memset(&sh, 0, sizeof sh); memset(&glu, 0, sizeof glu); memset(&gstat, 0, sizeof gstat); memset(&opt, 0, sizeof opt);
    sh.Glu = &glu; sh.Gstat = &gstat; gstat.panel_histo = intCalloc(64);
    glu.supno = intCalloc(MAXN + 2); glu.xsup = intCalloc(MAXN + 2); glu.xsup_end = intCalloc(MAXN + 2);
    etree_[n_] = n_;
    int fd = dup(1); freopen("/dev/null", "w", stdout);     /* the library prints */
    int r = rec(0);
    fflush(stdout); dup2(fd, 1);
    char buf[700]; int L = snprintf(buf, sizeof buf, "{\"n\":%d,\"w\":%d,\"relax\":%d,\"P\":%d,\"forests\":%ld,\"states\":%ld,\"transitions\":%ld,\"violation\":%s%s%s}\n", n_, w_, relax_, P_, forests, totstates, tottrans,
                     r ? "\"" : "", r ? viol : "null", r ? "\"" : "");
    ssize_t wv = write(fd, buf, L); (void)wv;
    return r ? 1 : 0;
}
