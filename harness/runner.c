/* runner.c — persistent case runner.  Protocol (stdin/stdout, line oriented):
 *   <case text lines> ... "end"      ->   one JSON verdict line on stdout
 * Every case runs in a fork()ed child; the child evaluates the oracle and writes the verdict to a pipe.
 * `runner --replay FILE` runs one case file and prints the verdict (exit 0 pass/skip, 1 fail). */
#define _GNU_SOURCE
#include "slu_mt_ddefs.h"
#include "hx.h"
#include <stdarg.h>
#include <unistd.h>
#include <signal.h>
#include <poll.h>
#include <sys/wait.h>
#include <sys/mman.h>
#include <sys/time.h>
#include <sys/resource.h>
#include <fcntl.h>
#include <errno.h>
#include <math.h>
#include <time.h>

hx_case *G = NULL;
int g_verdict_fd = 1;
static int g_err_fd = 2;     /* memfd holding the child's stderr */

/* ------------------------------------------------------------------ parameters */
const char *P_str(const char *k, const char *dflt)
{ for (int i = G->nkv - 1; i >= 0; --i) if (!strcmp(G->key[i], k)) return G->val[i]; return dflt; }
long P_int(const char *k, long dflt) { const char *s = P_str(k, NULL); return s ? strtol(s, NULL, 0) : dflt; }
double P_dbl(const char *k, double dflt) { const char *s = P_str(k, NULL); return s ? strtod(s, NULL) : dflt; }
double *P_list(const char *name, long *len)
{ for (int i = 0; i < G->nlists; ++i) if (!strcmp(G->lname[i], name)) { *len = G->llen[i]; return G->lval[i]; } *len = 0; return NULL; }

const slu_vt *vt_of(char prec)
{ switch (prec) { case 's': return &slu_vt_s; case 'd': return &slu_vt_d; case 'c': return &slu_vt_c; default: return &slu_vt_z; } }

/* ------------------------------------------------------------------ features + verdict */
#define MAXF 128
static char  f_name[MAXF][40]; static double f_val[MAXF]; static char f_sval[MAXF][96]; static int f_is_s[MAXF]; static int nf = 0;
static int f_find(const char *n) { for (int i = 0; i < nf; ++i) if (!strcmp(f_name[i], n)) return i;
    if (nf < MAXF) { snprintf(f_name[nf], 40, "%s", n); f_val[nf] = 0; f_is_s[nf] = 0; return nf++; } return MAXF - 1; }
void feat(const char *name, double v) { int i = f_find(name); f_val[i] = v; f_is_s[i] = 0; }
void feat_add(const char *name, double v) { int i = f_find(name); f_val[i] += v; }
void feat_str(const char *name, const char *v) { int i = f_find(name); f_is_s[i] = 1; snprintf(f_sval[i], 96, "%s", v); }
static char ctxs[512]; 
void hx_ctx_add(const char *w)
{
    if (strstr(ctxs, w)) return;
    size_t L = strlen(ctxs); snprintf(ctxs + L, sizeof ctxs - L, "%s%s", L ? "," : "", w);
    char line[320]; int n = snprintf(line, sizeof line, "HXCTX %.300s\n", w); if (n > (int)sizeof line - 1) n = (int)sizeof line - 1; ssize_t w_ = write(2, line, n); (void)w_;
}
static char notes[2048]; static size_t notes_len = 0;
void note(const char *fmt, ...) { va_list ap; va_start(ap, fmt); if (notes_len < sizeof notes - 2) { notes_len += vsnprintf(notes + notes_len, sizeof notes - notes_len, fmt, ap);
        if (notes_len < sizeof notes - 2) notes[notes_len++] = ';'; notes[notes_len < sizeof notes ? notes_len : sizeof notes - 1] = 0; } va_end(ap); }

static void json_escape(char *dst, size_t n, const char *src)
{
    size_t o = 0;
    for (; *src && o + 7 < n; ++src) {
        unsigned char c = (unsigned char)*src;
        if (c == '"' || c == '\\') { dst[o++] = '\\'; dst[o++] = c; }
        else if (c == '\n') { dst[o++] = '\\'; dst[o++] = 'n'; }
        else if (c < 0x20 || c > 0x7e) { dst[o++] = '?'; }
        else dst[o++] = c;
    }
    dst[o] = 0;
}
static void export_mon(void)
{
    feat("ev", g_mon.events); feat("yields", g_mon.yields); feat("switches", g_mon.switches); feat("takes", g_mon.takes);
    feat("pipe_takes", g_mon.pipe_takes); feat("dad_takes", g_mon.dad_takes); feat("blocked_waits", g_mon.blocked_waits);
    feat("spins", g_mon.spins); feat("prunes", g_mon.prunes); feat("thr_panels", g_mon.threads_with_panels);
    feat("npanels", g_mon.npanels); feat("nrelaxed", g_mon.nrelaxed); feat("upd_done", g_mon.updates_done); feat("upd_busy", g_mon.updates_busy);
    feat("min_slack", g_mon.min_slack); feat("tail_max", g_mon.tail_max); feat("prune_while_dfs", g_mon.prune_while_dfs);
    feat("lusup_allocs", g_mon.lusup_allocs); feat("dyn_setmaps", g_mon.dyn_setmaps);
    feat("takes_with_busy", g_mon.takes_with_busy); feat("singular_events", g_mon.singular_events); feat("no_candidate", g_mon.no_candidate); feat("tight_slots", g_mon.tight_slots); feat("dfs_steps", g_mon.dfs_steps); feat("prune_steps", g_mon.prune_steps); feat("prune_during_read", g_mon.prune_during_read); feat("double_prune", g_mon.double_prune); feat("mutex_waits", g_mon.mutex_waits); feat("long_stalls", g_mon.long_stalls); feat("thr_start", g_mon.thread_starts); feat("thr_exit", g_mon.thread_exits);
}
static void emit(const char *v, const char *sig, const char *detail)
{
    static char buf[16384], e1[1024], e2[4096], e3[4096];
    export_mon();
    static char sigx[600];
    if (sig && *sig && ctxs[0] && strcmp(v, "pass") && strcmp(v, "skip")) { snprintf(sigx, sizeof sigx, "%s|ctx=%s", sig, ctxs); sig = sigx; }
    json_escape(e1, sizeof e1, sig ? sig : ""); json_escape(e2, sizeof e2, detail ? detail : ""); json_escape(e3, sizeof e3, notes);
    size_t o = snprintf(buf, sizeof buf, "{\"v\":\"%s\",\"sig\":\"%s\",\"detail\":\"%s\",\"notes\":\"%s\",\"f\":{", v, e1, e2, e3);
    for (int i = 0; i < nf && o < sizeof buf - 200; ++i) {
        if (f_is_s[i]) { char es[200]; json_escape(es, sizeof es, f_sval[i]); o += snprintf(buf + o, sizeof buf - o, "%s\"%s\":\"%s\"", i ? "," : "", f_name[i], es); }
        else if (isfinite(f_val[i])) o += snprintf(buf + o, sizeof buf - o, "%s\"%s\":%.10g", i ? "," : "", f_name[i], f_val[i]);
        else o += snprintf(buf + o, sizeof buf - o, "%s\"%s\":null", i ? "," : "", f_name[i]);
    }
    o += snprintf(buf + o, sizeof buf - o, "}}\n");
    ssize_t w = write(g_verdict_fd, buf, o); (void)w;
}
void verdict_pass(void) { g_track = 0; emit("pass", "", ""); _exit(0); }
void verdict_fail(const char *sig, const char *fmt, ...)
{ g_track = 0; static char d[4096]; va_list ap; va_start(ap, fmt); vsnprintf(d, sizeof d, fmt, ap); va_end(ap); emit("fail", sig, d); _exit(0); }
void verdict_skip(const char *fmt, ...)
{ g_track = 0; static char d[1024]; va_list ap; va_start(ap, fmt); vsnprintf(d, sizeof d, fmt, ap); va_end(ap); emit("skip", "", d); _exit(0); }

static void stderr_tail(char *out, size_t n)
{
    out[0] = 0;
    off_t sz = lseek(g_err_fd, 0, SEEK_END);
    if (sz <= 0) return;
    off_t from = sz > (off_t)(n - 1) ? sz - (off_t)(n - 1) : 0;
    ssize_t r = pread(g_err_fd, out, (size_t)(sz - from), from);
    if (r < 0) r = 0;
    out[r] = 0;
}
/* exit() called from library code (worker or main thread) */
void hx_library_exit(int code)
{
    static volatile int once = 0;
    if (__atomic_exchange_n(&once, 1, __ATOMIC_SEQ_CST)) { for (;;) pause(); }
    g_track = 0;
    fflush(stderr);
    char tail[1500]; stderr_tail(tail, sizeof tail);
    feat("libexit", 1); feat("libexit_code", code);
    /* last non-empty line = the diagnostic */
    char *diag = tail; size_t L = strlen(tail);
    while (L > 0 && (tail[L - 1] == '\n' || tail[L - 1] == ' ')) tail[--L] = 0;
    char *nl = strrchr(tail, '\n'); if (nl) diag = nl + 1;
    int has_diag = strlen(diag) > 8;
    /* a few lines of context */
    if (g_exit_policy == EXITPOL_ALLOW_DIAG && has_diag) { feat_str("libexit_diag", diag); emit("libexit", "libexit:diagnosed", tail); }
    else emit("fail", has_diag ? "libexit:unexpected" : "libexit:no_diagnostic", tail);
    _exit(0);
}
void hx_controller_abort(const char *sig, const char *detail) { g_track = 0; emit("fail", sig, detail); _exit(0); }

/* ------------------------------------------------------------------ case parsing */
static void add_kv(hx_case *c, const char *k, const char *v)
{ if (c->nkv < HX_MAXKV) { c->key[c->nkv] = hx_strdup(k); c->val[c->nkv] = hx_strdup(v); c->nkv++; } }

static hx_case *parse_case(char *text)
{
    hx_case *c = hx_calloc(1, sizeof *c);
    long cap_e = 0, cap_b = 0, cap_pc = 0, cap_ops = 0;
    char *save = NULL;
    for (char *line = strtok_r(text, "\n", &save); line; line = strtok_r(NULL, "\n", &save)) {
        while (*line == ' ') line++;
        if (!*line || *line == '#') continue;
        if (!strncmp(line, "set ", 4)) {
            char *k = line + 4; while (*k == ' ') k++;
            char *v = strchr(k, ' ');
            if (v) { *v++ = 0; while (*v == ' ') v++; } else v = "";
            add_kv(c, k, v);
        } else if (line[0] == 'e' && line[1] == ' ') {
            if (c->ne == cap_e) { cap_e = cap_e ? 2 * cap_e : 256; c->ei = hx_realloc(c->ei, cap_e * sizeof(int)); c->ej = hx_realloc(c->ej, cap_e * sizeof(int));
                c->er = hx_realloc(c->er, cap_e * sizeof(double)); c->ei_im = hx_realloc(c->ei_im, cap_e * sizeof(double)); }
            char *p = line + 2; c->ei[c->ne] = (int)strtol(p, &p, 10); c->ej[c->ne] = (int)strtol(p, &p, 10);
            c->er[c->ne] = strtod(p, &p); c->ei_im[c->ne] = strtod(p, &p); c->ne++;
        } else if (line[0] == 'b' && line[1] == ' ') {
            if (c->nb == cap_b) { cap_b = cap_b ? 2 * cap_b : 256; c->br = hx_realloc(c->br, cap_b * sizeof(double)); c->bi = hx_realloc(c->bi, cap_b * sizeof(double)); }
            char *p = line + 2; c->br[c->nb] = strtod(p, &p); c->bi[c->nb] = strtod(p, &p); c->nb++;
        } else if (!strncmp(line, "pc ", 3)) {
            char *p = line + 3, *q;
            for (;;) { long v = strtol(p, &q, 10); if (q == p) break; p = q;
                if (c->npc == cap_pc) { cap_pc = cap_pc ? 2 * cap_pc : 64; c->pc = hx_realloc(c->pc, cap_pc * sizeof(int)); }
                c->pc[c->npc++] = (int)v; }
        } else if (!strncmp(line, "list ", 5)) {
            char *p = line + 5; char *sp = strchr(p, ' '); if (!sp) continue; *sp++ = 0;
            int li = -1; for (int t = 0; t < c->nlists; ++t) if (!strcmp(c->lname[t], p)) li = t;
            if (li < 0) { if (c->nlists >= 32) continue; li = c->nlists++; c->lname[li] = hx_strdup(p); c->llen[li] = 0; c->lval[li] = NULL; }
            long len = c->llen[li], cap = len; double *v = c->lval[li]; char *q;
            for (;;) { double x = strtod(sp, &q); if (q == sp) break; sp = q; if (len == cap) { cap = cap ? 2 * cap : 16; v = hx_realloc(v, cap * sizeof(double)); } v[len++] = x; }
            c->llen[li] = len; c->lval[li] = v;
        } else if (!strncmp(line, "op ", 3)) {
            if (c->nops == cap_ops) { cap_ops = cap_ops ? 2 * cap_ops : 16; c->ops = hx_realloc(c->ops, cap_ops * sizeof(char *)); }
            c->ops[c->nops++] = hx_strdup(line + 3);
        } else if (!strncmp(line, "blobhex ", 8)) {
            char *p = line + 8; size_t L = strlen(p) / 2; c->blob = hx_realloc(c->blob, c->bloblen + L + 1);
            for (size_t i = 0; i < L; ++i) { unsigned v; sscanf(p + 2 * i, "%2x", &v); c->blob[c->bloblen + i] = (char)v; }
            c->bloblen += L; c->blob[c->bloblen] = 0;
        }
    }
    return c;
}

/* ------------------------------------------------------------------ dispatch (child) */
static void run_child(char *text)
{
    G = parse_case(text);
    g_ienv[1] = (int)P_int("panel", 8); g_ienv[2] = (int)P_int("relax", 4); g_ienv[3] = (int)P_int("maxsuper", 20);
    g_ienv[4] = (int)P_int("rowblk", 20); g_ienv[5] = (int)P_int("colblk", 10);
    /* storage estimates: unless the case sets them (C05 does), use absolute values that always suffice (positive = number of
       entries): U needs at most n^2 entries, the L subscripts are stored twice per supernode */
    { long n_ = P_int("n", 1); long big7 = n_ * n_ + 4 * n_ + 64, big8 = 2 * n_ * n_ + 8 * n_ + 64;
      if (big8 > 2000000000L) { big7 = -50; big8 = -30; }
      g_ienv[6] = (int)P_int("fill6", big7); g_ienv[7] = (int)P_int("fill7", big7); g_ienv[8] = (int)P_int("fill8", big8); }
    if (P_int("dynsnode", 0)) setenv("SuperLU_DYNAMIC_SNODE_STORE", "1", 1); else unsetenv("SuperLU_DYNAMIC_SNODE_STORE");
    {
        const char *sm = P_str("sched", "none"); int mode = SCHED_NONE, strat = 0;
        if (!strncmp(sm, "controlled", 10)) mode = SCHED_CONTROLLED; else if (!strncmp(sm, "free", 4)) mode = SCHED_FREE;
        const char *st = P_str("strategy", "uniform");
        if (!strcmp(st, "sticky")) strat = 1; else if (!strcmp(st, "pct")) strat = 2;
        sched_configure(mode, (int)P_int("P", 1), (uint64_t)strtoull(P_str("sched_seed", "1"), NULL, 0), strat, (int)P_int("sparam", 0), (int)P_int("delay_us", 100));
    }
    g_yield_prune_inner = (int)P_int("yield_prune_inner", 1);
    g_fail_from = P_int("malloc_fail_from", 0); g_fail_only = P_int("malloc_fail_only", 0);
    const char *prop = P_str("prop", "C01");
    int id = atoi(prop + 1);
    static void (*const tab[21])(void) = { 0, prop_C01, prop_C02, prop_C03, prop_C04, prop_C05, prop_C06, prop_C07, prop_C08, prop_C09, prop_C10,
        prop_C11, prop_C12, prop_C13, prop_C14, prop_C15, prop_C16, prop_C17, prop_C18, prop_C19, prop_C20 };
    if (id < 1 || id > 20) verdict_skip("unknown property %s", prop);
    tab[id]();
    verdict_pass();
}

/* ------------------------------------------------------------------ parent: fork + watchdog */
static void summarize_crash(const char *tail, int sig, int code, char *sigbuf, size_t n)
{
    /* look for sanitizer summary */
    const char *s = strstr(tail, "SUMMARY: ");
    if (s) {
        char kind[64] = "", where[160] = "";
        /* SUMMARY: AddressSanitizer: heap-buffer-overflow /repo/SRC/x.c:12 in func */
        const char *p = strchr(s + 9, ':'); if (p) { p += 2; sscanf(p, "%63s", kind); }
        const char *in = strstr(s, " in "); if (in) { sscanf(in + 4, "%159s", where); }
        snprintf(sigbuf, n, "sanitizer:%s@%s", kind, where);
        return;
    }
    s = strstr(tail, "runtime error:");
    if (s) { char msg[100]; snprintf(msg, sizeof msg, "%s", s + 15); char *nl = strchr(msg, '\n'); if (nl) *nl = 0; snprintf(sigbuf, n, "ubsan:%s", msg); return; }
    if (sig) snprintf(sigbuf, n, "crash:signal%d", sig); else snprintf(sigbuf, n, "crash:exit%d", code);
}

static int run_case_forked(char *text, long timeout_ms, char *out, size_t outn)
{
    int pfd[2]; if (pipe(pfd)) { snprintf(out, outn, "{\"v\":\"error\",\"sig\":\"pipe\"}\n"); return -1; }
    int efd = memfd_create("hxerr", 0);
    pid_t pid = fork();
    if (pid == 0) {
        close(pfd[0]); g_verdict_fd = pfd[1];
        if (efd >= 0) { dup2(efd, 2); g_err_fd = efd; }
        int dn = open("/dev/null", O_WRONLY); if (dn >= 0) dup2(dn, 1);
        struct rlimit rl = { 0, 0 }; setrlimit(RLIMIT_CORE, &rl);
        setpgid(0, 0);
        run_child(text);
        _exit(0);
    }
    close(pfd[1]);
    size_t got = 0; int timed_out = 0;
    struct timespec t0; clock_gettime(CLOCK_MONOTONIC, &t0);
    for (;;) {
        struct timespec t1; clock_gettime(CLOCK_MONOTONIC, &t1);
        long el = (t1.tv_sec - t0.tv_sec) * 1000 + (t1.tv_nsec - t0.tv_nsec) / 1000000;
        long left = timeout_ms - el; if (left <= 0) { timed_out = 1; break; }
        struct pollfd pf = { pfd[0], POLLIN, 0 };
        int pr = poll(&pf, 1, (int)(left > 1000 ? 1000 : left));
        if (pr < 0 && errno != EINTR) break;
        if (pr > 0) {
            ssize_t r = read(pfd[0], out + got, outn - 1 - got);
            if (r <= 0) break;
            got += (size_t)r;
            if (got && out[got - 1] == '\n') break;
        }
    }
    out[got] = 0;
    int status = 0;
    if (timed_out || got) { /* child either hung or delivered its verdict: make sure it is gone */
        if (timed_out) { kill(-pid, SIGKILL); kill(pid, SIGKILL); }
        else { /* give it a moment to _exit by itself */
            for (int i = 0; i < 200; ++i) { if (waitpid(pid, &status, WNOHANG) == pid) { pid = -1; break; } usleep(1000); }
            if (pid > 0) { kill(-pid, SIGKILL); kill(pid, SIGKILL); }
        }
    }
    if (pid > 0) waitpid(pid, &status, 0);
    close(pfd[0]);
    if (timed_out && !got) { snprintf(out, outn, "{\"v\":\"timeout\",\"sig\":\"timeout\",\"detail\":\"no verdict within %ld ms\",\"f\":{}}\n", timeout_ms); if (efd >= 0) close(efd); return 0; }
    if (!got) {
        /* crashed without verdict */
        static char tail[6000], esc[7000], sg[300];
        tail[0] = 0;
        if (efd >= 0) { off_t sz = lseek(efd, 0, SEEK_END); off_t from = sz > 5900 ? sz - 5900 : 0; ssize_t r = pread(efd, tail, (size_t)(sz - from), from); if (r < 0) r = 0; tail[r] = 0; }
        /* find the summary in the whole text if the tail missed it */
        summarize_crash(tail, WIFSIGNALED(status) ? WTERMSIG(status) : 0, WIFEXITED(status) ? WEXITSTATUS(status) : 0, sg, sizeof sg);
        if (efd >= 0) { static char all[1 << 16]; ssize_t r2 = pread(efd, all, sizeof all - 1, 0); if (r2 < 0) r2 = 0; all[r2] = 0;
            const char *cx = strstr(all, "HXCTX "); int first = 1;
            while (cx) { char w[64]; sscanf(cx + 6, "%63s", w); size_t L = strlen(sg); snprintf(sg + L, sizeof sg - L, "%s%s", first ? "|ctx=" : ",", w); first = 0; cx = strstr(cx + 6, "HXCTX "); }
            const char *ph = strstr(all, "HXPHASE "); const char *last = NULL; while (ph) { last = ph; ph = strstr(ph + 1, "HXPHASE "); }
            if (last) { char w[64]; sscanf(last + 8, "%63s", w); size_t L = strlen(sg); snprintf(sg + L, sizeof sg - L, "|phase=%s", w); } }
        json_escape(esc, sizeof esc, tail);
        char sge[400]; json_escape(sge, sizeof sge, sg);
        snprintf(out, outn, "{\"v\":\"crash\",\"sig\":\"%s\",\"detail\":\"%s\",\"f\":{}}\n", sge, esc);
    }
    if (efd >= 0) close(efd);
    return 0;
}

static char *read_all(FILE *f, size_t *len)
{
    size_t cap = 1 << 16, n = 0; char *b = hx_malloc(cap);
    for (;;) { size_t r = fread(b + n, 1, cap - n - 1, f); n += r; if (r == 0) break; if (n + 1 >= cap) { cap *= 2; b = hx_realloc(b, cap); } }
    b[n] = 0; if (len) *len = n; return b;
}
static long timeout_of(const char *text)
{
    const char *p = strstr(text, "set timeout_ms "); if (p) return strtol(p + 15, NULL, 10);
    return 20000;
}

int main(int argc, char **argv)
{
    signal(SIGPIPE, SIG_IGN);
    static char out[1 << 16];
    if (argc >= 3 && !strcmp(argv[1], "--replay")) {
        FILE *f = fopen(argv[2], "r"); if (!f) { perror(argv[2]); return 2; }
        char *text = read_all(f, NULL); fclose(f);
        long to = timeout_of(text);
        if (argc >= 4 && !strcmp(argv[3], "--inline")) { g_verdict_fd = 1; g_err_fd = 2; run_child(text); return 0; }
        run_case_forked(text, to, out, sizeof out);
        fputs(out, stdout);
        return (strstr(out, "\"v\":\"pass\"") || strstr(out, "\"v\":\"skip\"") || strstr(out, "\"v\":\"libexit\"")) ? 0 : 1;
    }
    /* server mode */
    size_t cap = 1 << 16, n = 0; char *buf = hx_malloc(cap); static char line[1 << 21];
    while (fgets(line, sizeof line, stdin)) {
        if (!strcmp(line, "end\n")) {
            buf[n] = 0;
            long to = timeout_of(buf);
            run_case_forked(buf, to, out, sizeof out);
            fputs(out, stdout); fflush(stdout);
            n = 0; continue;
        }
        size_t L = strlen(line);
        if (n + L + 1 >= cap) { cap = 2 * (n + L + 1); buf = hx_realloc(buf, cap); }
        memcpy(buf + n, line, L); n += L;
    }
    return 0;
}
