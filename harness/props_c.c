/* props_c.c — C10 (orderings, sp_colorder, etree), C19 (sparse kernels and utilities), C20 (file readers) */
#define _GNU_SOURCE
#include "slu_mt_ddefs.h"
#include "fx.h"
#include <math.h>
#include <unistd.h>
#include <sys/mman.h>

extern int check_sp_trsv(fx_t *x, char *msg, size_t mn, char *sigout, size_t sn);

/* ================================================================== C10 */
/* reference elimination tree of the symmetric pattern S (n x n boolean, both triangles set) by the defining fill recurrence */
static void ref_etree(int n, const unsigned char *S, int *parent)
{
    unsigned char *st = hx_calloc((size_t)n * n + 1, 1);      /* st[j*n+i]=1 : i in struct(L(:,j)), i>j */
    for (int j = 0; j < n; ++j) {
        for (int i = j + 1; i < n; ++i) if (S[(size_t)j * n + i]) st[(size_t)j * n + i] = 1;
        for (int k = 0; k < j; ++k) if (parent[k] == j) for (int i = j + 1; i < n; ++i) if (st[(size_t)k * n + i]) st[(size_t)j * n + i] = 1;
        parent[j] = n; for (int i = j + 1; i < n; ++i) if (st[(size_t)j * n + i]) { parent[j] = i; break; }
    }
    hx_free(st);
}
/* S = pattern of C^T C with C = A*Pc (column pc[j] of C = column j of A), or of Pc (A+A^T) Pc^T */
static unsigned char *sym_pattern(int m, int n, const int_t *colptr, const int_t *rowind, const int_t *pc, int symmode)
{
    unsigned char *S = hx_calloc((size_t)n * n + 1, 1);
    if (symmode) { for (int j = 0; j < n; ++j) for (long p = colptr[j]; p < colptr[j + 1]; ++p) { int i = rowind[p]; if (i < n) { S[(size_t)pc[j] * n + pc[i]] = 1; S[(size_t)pc[i] * n + pc[j]] = 1; } } }
    else { int *rows = hx_malloc(sizeof(int) * (n + 1));
        for (int r = 0; r < m; ++r) { int c = 0; for (int j = 0; j < n; ++j) for (long p = colptr[j]; p < colptr[j + 1]; ++p) if (rowind[p] == r) { rows[c++] = pc[j]; break; }
            for (int a = 0; a < c; ++a) for (int b = 0; b < c; ++b) S[(size_t)rows[a] * n + rows[b]] = 1; }
        hx_free(rows); }
    return S;
}

static const char *c10_one(int m, int n, int_t *colptr, int_t *rowind, double *vals, int spec, int_t *userpc, int symmode, int do_colorder, long *stats)
{
    static char msg[400];
    long nnz = colptr[n];
    NCformat st = { (int_t)nnz, vals, rowind, colptr }; SuperMatrix A = { SLU_NC, SLU_D, SLU_GE, m, n, &st };
    uint64_t h0 = fnv1a(colptr, sizeof(int_t) * (n + 1), fnv1a(rowind, sizeof(int_t) * nnz, fnv1a(vals, sizeof(double) * nnz, 0)));
    int_t *pc = hx_malloc(sizeof(int_t) * (n + 1)), *pc_in = hx_malloc(sizeof(int_t) * (n + 1));
    if (userpc) memcpy(pc, userpc, sizeof(int_t) * n); else { for (int i = 0; i < n; ++i) pc[i] = -9; LIB(get_perm_c(spec, &A, pc)); }
    if (!is_perm(pc, n)) { snprintf(msg, sizeof msg, "C10:ordering_not_bijection|get_perm_c(%d) on a %dx%d pattern with %ld entries did not return a permutation", spec, m, n, nnz); return msg; }
    if (fnv1a(colptr, sizeof(int_t) * (n + 1), fnv1a(rowind, sizeof(int_t) * nnz, fnv1a(vals, sizeof(double) * nnz, 0))) != h0) { snprintf(msg, sizeof msg, "C10:get_perm_c_modified_A|A changed"); return msg; }
    if (!do_colorder || m != n) { hx_free(pc); hx_free(pc_in); return NULL; }
    memcpy(pc_in, pc, sizeof(int_t) * n);
    superlumt_options_t o; memset(&o, 0, sizeof o);
    o.nprocs = 1; o.refact = NO; o.panel_size = g_ienv[1]; o.relax = g_ienv[2]; o.SymmetricMode = symmode ? YES : NO; o.perm_c = pc; o.fact = DOFACT; o.usepr = NO; o.diag_pivot_thresh = 1.0;
    o.etree = hx_malloc(sizeof(int_t) * (n + 1)); o.colcnt_h = hx_malloc(sizeof(int_t) * (n + 1)); o.part_super_h = hx_malloc(sizeof(int_t) * (n + 1));
    for (int i = 0; i < n; ++i) { o.etree[i] = -5; o.colcnt_h[i] = -5; o.part_super_h[i] = -5; }
    SuperMatrix AC;
    LIB(sp_colorder(&A, pc, &o, &AC));
    const char *res = NULL;
    if (fnv1a(colptr, sizeof(int_t) * (n + 1), fnv1a(rowind, sizeof(int_t) * nnz, fnv1a(vals, sizeof(double) * nnz, 0))) != h0) { snprintf(msg, sizeof msg, "C10:sp_colorder_modified_A|A's arrays changed"); res = msg; goto done; }
    if (!is_perm(pc, n)) { snprintf(msg, sizeof msg, "C10:perm_c_after_colorder_not_bijection|perm_c is not a permutation after sp_colorder"); res = msg; goto done; }
    {
        NCPformat *ac = AC.Store;
        if (AC.Stype != SLU_NCP || AC.nrow != m || AC.ncol != n || ac->nzval != (void *)vals || ac->rowind != rowind || ac->nnz != nnz) { snprintf(msg, sizeof msg, "C10:AC_header|A*Pc does not share A's arrays or has a wrong header"); res = msg; goto done; }
        for (int j = 0; j < n; ++j) if (ac->colbeg[pc[j]] != colptr[j] || ac->colend[pc[j]] != colptr[j + 1]) { snprintf(msg, sizeof msg, "C10:AC_column_mismatch|column %d of A*Pc (=Pc(%d)) is [%d,%d), column %d of A is [%d,%d)", (int)pc[j], j, (int)ac->colbeg[pc[j]], (int)ac->colend[pc[j]], j, (int)colptr[j], (int)colptr[j + 1]); res = msg; goto done; }
        /* q = pc_out o pc_in^-1 */
        int *q = hx_malloc(sizeof(int) * (n + 1)); for (int j = 0; j < n; ++j) q[pc_in[j]] = pc[j];
        int *Tref = hx_malloc(sizeof(int) * (n + 1)), *Tfin = hx_malloc(sizeof(int) * (n + 1));
        unsigned char *S = sym_pattern(m, n, colptr, rowind, pc_in, symmode); ref_etree(n, S, Tref); hx_free(S);
        S = sym_pattern(m, n, colptr, rowind, pc, symmode); ref_etree(n, S, Tfin); hx_free(S);
        int multi = 0, roots = 0; int *nch = hx_calloc(n + 2, sizeof(int));
        for (int v = 0; v < n; ++v) { if (Tref[v] == n) roots++; else if (++nch[Tref[v]] >= 2) multi = 1; }
        int ident = 1; for (int v = 0; v < n; ++v) if (q[v] != v) ident = 0;
        stats[0] += (roots >= 2 || multi) && !ident; stats[1] += 1;
        for (int v = 0; v < n && !res; ++v) {
            int pv = Tref[v];
            if (pv < n && !(q[v] < q[pv])) { snprintf(msg, sizeof msg, "C10:not_a_postorder|the ordering change maps node %d after its elimination-tree parent %d", v, pv); res = msg; }
            int expect = pv < n ? q[pv] : n;
            if (!res && o.etree[q[v]] != expect) { snprintf(msg, sizeof msg, "C10:etree_mismatch|reported etree[%d]=%d, reference (tree of A*Pc_in relabelled by the postorder) %d", q[v], (int)o.etree[q[v]], expect); res = msg; }
        }
        for (int v = 0; v < n && !res; ++v) if (o.etree[v] != Tfin[v]) { snprintf(msg, sizeof msg, "C10:etree_not_of_final_matrix|reported etree[%d]=%d but the elimination tree of the final A*Pc has parent %d", v, (int)o.etree[v], Tfin[v]); res = msg; }
        /* subtree contiguity: every subtree is an interval ending at its root */
        if (!res) { int *fd = hx_malloc(sizeof(int) * (n + 1)), *sz = hx_calloc(n + 1, sizeof(int)); for (int v = 0; v < n; ++v) { fd[v] = v; sz[v] = 1; }
            for (int v = 0; v < n; ++v) { int p = o.etree[v]; if (p < 0 || p > n || (p < n && p <= v)) { snprintf(msg, sizeof msg, "C10:etree_not_topological|etree[%d]=%d", v, p); res = msg; break; } if (p < n) { sz[p] += sz[v]; if (fd[v] < fd[p]) fd[p] = fd[v]; } }
            for (int v = 0; v < n && !res; ++v) if (sz[v] != v - fd[v] + 1) { snprintf(msg, sizeof msg, "C10:subtree_not_contiguous|subtree of %d has %d nodes but spans [%d,%d]", v, sz[v], fd[v], v); res = msg; }
            hx_free(fd); hx_free(sz); }
        /* supernode partition of the bounding factor tiles 0..n-1 */
        if (!res) { int j = 0; while (j < n) { int w = o.part_super_h[j]; if (w <= 0 || j + w > n) { snprintf(msg, sizeof msg, "C10:partition_invalid|part_super_h[%d]=%d (n=%d)", j, w, n); res = msg; break; }
                for (int k = j + 1; k < j + w; ++k) if (o.part_super_h[k] != 0) { snprintf(msg, sizeof msg, "C10:partition_invalid|part_super_h[%d]=%d inside the block starting at %d of size %d", k, (int)o.part_super_h[k], j, w); res = msg; break; }
                if (res) break; j += w; } }
        hx_free(q); hx_free(Tref); hx_free(Tfin); hx_free(nch);
    }
    /* the public entry point p?gstrf_init (options structure handed over with arbitrary content) must produce exactly what
       sp_colorder produced above in the non-symmetric mode it documents */
    { const char *ip = P_str("init_prec", "");
      if (!res && ip[0] && !symmode) {
        const slu_vt *vt2 = vt_of(ip[0]); Gstat_t gs; superlumt_options_t o2; SuperMatrix AC2;
        int_t *pc2 = hx_malloc(sizeof(int_t) * (n + 1)), *pr2 = hx_malloc(sizeof(int_t) * (n + 1)); memcpy(pc2, pc_in, sizeof(int_t) * n);
        g_track = 1; StatAlloc(n, 1, g_ienv[1], g_ienv[2], &gs); StatInit(n, 1, &gs);
        vt2->gstrf_init(1, DOFACT, NOTRANS, NO, g_ienv[1], g_ienv[2], 1.0, NO, 0.0, pc2, pr2, NULL, 0, &A, &AC2, &o2, &gs);
        g_track = 0;
        if (o2.SymmetricMode != NO) { snprintf(msg, sizeof msg, "C10:init_symmetric_mode_not_set|p%cgstrf_init left SymmetricMode=%d", ip[0], (int)o2.SymmetricMode); res = msg; }
        for (int v = 0; v < n && !res; ++v) {
            if (pc2[v] != pc[v]) { snprintf(msg, sizeof msg, "C10:init_differs_from_colorder|p%cgstrf_init: perm_c[%d]=%d, sp_colorder gave %d", ip[0], v, (int)pc2[v], (int)pc[v]); res = msg; }
            else if (o2.etree[v] != o.etree[v] || o2.colcnt_h[v] != o.colcnt_h[v] || o2.part_super_h[v] != o.part_super_h[v]) {
                snprintf(msg, sizeof msg, "C10:init_differs_from_colorder|p%cgstrf_init: etree/colcnt_h/part_super_h[%d] = %d/%d/%d, sp_colorder gave %d/%d/%d", ip[0], v, (int)o2.etree[v], (int)o2.colcnt_h[v], (int)o2.part_super_h[v], (int)o.etree[v], (int)o.colcnt_h[v], (int)o.part_super_h[v]); res = msg; } }
        g_track = 1; vt2->finalize(&o2, &AC2); StatFree(&gs); g_track = 0;
        hx_free(pc2); hx_free(pr2); stats[1] += 0;
      } }
done:
    g_track = 1; Destroy_CompCol_Permuted(&AC); g_track = 0;
    hx_free(o.etree); hx_free(o.colcnt_h); hx_free(o.part_super_h); hx_free(pc); hx_free(pc_in);
    return res;
}

void prop_C10(void)
{
    long stats[2] = { 0, 0 };
    g_exit_policy = EXITPOL_VIOLATION;
    if (!strcmp(P_str("mode", "case"), "enum")) {
        /* bounded-exhaustive: every pattern code in [lo,hi) of an n x n 0/1 matrix, every ordering option */
        int n = (int)P_int("n", 3); long lo = P_int("lo", 0), hi = P_int("hi", 1L << (n * n)); int symmode = (int)P_int("symm", 0); long cases = 0;
        int_t colptr[6], rowind[32]; double vals[32];
        for (long code = lo; code < hi; ++code) {
            long nz = 0; for (int j = 0; j < n; ++j) { colptr[j] = nz; for (int i = 0; i < n; ++i) if ((code >> (j * n + i)) & 1) { rowind[nz] = i; vals[nz] = 1.0 + nz; nz++; } } colptr[n] = nz;
            for (int spec = 0; spec <= 3; ++spec) { const char *r = c10_one(n, n, colptr, rowind, vals, spec, NULL, symmode, 1, stats); cases++;
                if (r) { char sg[120]; snprintf(sg, sizeof sg, "%s", r); char *b = strchr(sg, '|'); if (b) *b = 0; verdict_fail(sg, "pattern code %ld (n=%d, spec=%d, symm=%d): %s", code, n, spec, symmode, strchr(r, '|') ? strchr(r, '|') + 1 : r); } }
        }
        feat("enum_cases", cases); feat("enum_nontrivial", stats[0]); verdict_pass();
    }
    const slu_vt *vt = vt_of('d'); hx_matrix *M = build_matrix(vt); int m = M->m, n = M->n;
    if (M->stype) verdict_skip("NC only");
    features_of_matrix(M);
    const char *o = P_str("order", "0"); int_t *upc = NULL; int spec = 0;
    if (!strcmp(o, "user")) { upc = hx_malloc(sizeof(int_t) * (n + 1)); for (int i = 0; i < n; ++i) upc[i] = G->pc[i]; } else spec = atoi(o);
    const char *r = c10_one(m, n, M->ptr, M->ind, M->val, spec, upc, (int)P_int("symm", 0), 1, stats);
    feat("etree_nontrivial", stats[0]);
    if (r) { char sg[120]; snprintf(sg, sizeof sg, "%s", r); char *b = strchr(sg, '|'); if (b) *b = 0; verdict_fail(sg, "%s", strchr(r, '|') ? strchr(r, '|') + 1 : r); }
    verdict_pass();
}

/* ================================================================== C19 */
static void c19_vec(const slu_vt *vt, void *v, long idx, uint64_t *r, zq *out)
{
    double re = (double)((int)(((*r = *r * 6364136223846793005ull + 1442695040888963407ull) >> 40) % 2001) - 1000) / 512.0;
    double im = vt->is_complex ? (double)((int)(((*r = *r * 6364136223846793005ull + 1442695040888963407ull) >> 40) % 2001) - 1000) / 512.0 : 0;
    /* one entry in four is exactly zero (the kernels skip zero entries of x: the skip must not disturb the indexing) */
    if ((((*r = *r * 6364136223846793005ull + 1442695040888963407ull) >> 40) & 3) == 0) { re = 0; im = 0; }
    el_set(vt, v, idx, re, im); el_get(vt, v, idx, &out->re, &out->im);
}

void prop_C19(void)
{
    const slu_vt *vt = vt_of(P_str("prec", "d")[0]);
    const char *mode = P_str("mode", "gemv");
    ld ceps = vt->eps * (vt->is_complex ? 8 : 1);
    g_exit_policy = EXITPOL_ALLOW_DIAG;      /* "Not implemented." aborts are classified, not crashes */
    if (vt->is_complex) hx_ctx_add("complex");
    if (!strcmp(mode, "trsv")) {
        fx_t x; fx_init(&x); g_exit_policy = EXITPOL_VIOLATION;
        fx_factor_gstrf(&x);
        if (x.info != 0) verdict_skip("singular");
        fx_check_structure(&x, 1);
        char msg[300], sg[80]; if (check_sp_trsv(&x, msg, sizeof msg, sg, sizeof sg)) verdict_fail(sg, "%s", msg);
        fx_finish_gstrf(&x); verdict_pass();
    }
    hx_matrix *M = build_matrix(vt); int m = M->m, n = M->n;
    if (M->stype && strcmp(mode, "convert")) verdict_skip("NC only");
    features_of_matrix(M);
    uint64_t rs = (uint64_t)P_int("vseed", 5) * 2654435761u + 17;
    if (!strcmp(mode, "gemv") || !strcmp(mode, "gemm")) {
        const char *ts = P_str("trans", "N"); int op = ts[0] == 'N' ? 0 : ts[0] == 'T' ? 1 : 2;
        double ar = P_dbl("alpha_re", 1), ai = vt->is_complex ? P_dbl("alpha_im", 0) : 0, br = P_dbl("beta_re", 0), bi = vt->is_complex ? P_dbl("beta_im", 0) : 0;
        zq alpha = { ar, ai }, beta = { br, bi };
        int lenx = op == 0 ? n : m, leny = op == 0 ? m : n;
        int ncolB = !strcmp(mode, "gemm") ? (int)P_int("ncolb", 2) : 1;
        int incx = !strcmp(mode, "gemm") ? 1 : (int)P_int("incx", 1), incy = !strcmp(mode, "gemm") ? 1 : (int)P_int("incy", 1);
        int ldb = lenx + (int)P_int("padb", 0), ldc = leny + (int)P_int("padc", 0);
        if (!strcmp(mode, "gemv")) { char w[48]; snprintf(w, sizeof w, "gemv_%s_incx%d_incy%d", ts, incx == 1 ? 1 : 2, incy == 1 ? 1 : 2); hx_ctx_add(w); }
        long sx = !strcmp(mode, "gemm") ? (long)ldb * ncolB : 1 + (long)(lenx - 1) * labs(incx), sy = !strcmp(mode, "gemm") ? (long)ldc * ncolB : 1 + (long)(leny - 1) * labs(incy);
        if (lenx == 0) sx = 1; if (leny == 0) sy = 1;
        void *xv = hx_malloc(vt->esize * sx), *yv = hx_malloc(vt->esize * sy), *y0 = hx_malloc(vt->esize * sy);
        zq *X = hx_calloc(sx + 1, sizeof(zq)), *Y0 = hx_calloc(sy + 1, sizeof(zq));
        for (long k = 0; k < sx; ++k) c19_vec(vt, xv, k, &rs, &X[k]);
        for (long k = 0; k < sy; ++k) c19_vec(vt, yv, k, &rs, &Y0[k]);
        memcpy(y0, yv, vt->esize * sy);
        void *x0 = hx_malloc(vt->esize * sx); memcpy(x0, xv, vt->esize * sx);
        uint64_t hA = hash_supermatrix_nc(vt, &M->A);
        g_xerbla_calls = 0;
        if (!strcmp(mode, "gemv")) LIB(vt->sp_gemv((char *)ts, ar, ai, &M->A, xv, incx, br, bi, yv, incy));
        else LIB(vt->sp_gemm((char *)ts, leny, ncolB, lenx, ar, ai, &M->A, xv, ldb, br, bi, yv, ldc));
        if (g_xerbla_calls) verdict_fail("C19:xerbla_on_valid_call", "%s rejected valid arguments (arg %d)", g_xerbla_name, g_xerbla_pos);
        if (hash_supermatrix_nc(vt, &M->A) != hA) verdict_fail("C19:A_modified", "the matrix was modified by a product");
        if (memcmp(x0, xv, vt->esize * sx)) verdict_fail("C19:x_modified", "the input vector was modified");
        for (int c = 0; c < ncolB; ++c) {
            long kx = !strcmp(mode, "gemm") ? (long)c * ldb : (incx > 0 ? 0 : -(long)(lenx - 1) * incx), ky = !strcmp(mode, "gemm") ? (long)c * ldc : (incy > 0 ? 0 : -(long)(leny - 1) * incy);
            zq *acc = hx_calloc(leny + 1, sizeof(zq)); ld *den = hx_calloc(leny + 1, sizeof(ld));
            for (int j = 0; j < n; ++j) for (long p = M->cptr[j]; p < M->cptr[j + 1]; ++p) { int i = M->cind[p]; zq a = M->cval[p];
                if (op == 0) { zq xj = X[kx + (long)j * incx]; acc[i] = zq_add(acc[i], zq_mul(a, xj)); den[i] += zq_abs(a) * zq_abs(xj); }
                else { /* 'C' is documented by sp_?gemv/sp_?gemm themselves as y := alpha*A'*x + beta*y (transpose, no conjugation) */
                    zq xi = X[kx + (long)i * incx]; acc[j] = zq_add(acc[j], zq_mul(a, xi)); den[j] += zq_abs(a) * zq_abs(xi); } }
            for (int i = 0; i < leny; ++i) { long yi = ky + (long)i * incy; zq ref = zq_add(zq_mul(alpha, acc[i]), zq_mul(beta, Y0[yi])); zq got; el_get(vt, yv, yi, &got.re, &got.im);
                ld tol = 2 * gam((op == 0 ? n : m) + 3, ceps) * (zq_abs(alpha) * den[i] + zq_abs(beta) * zq_abs(Y0[yi])) + 0x1p-1000L;
                if (!(zq_abs(zq_sub(got, ref)) <= tol)) verdict_fail("C19:product_wrong", "%s(%s) alpha=(%g,%g) beta=(%g,%g) incx=%d incy=%d: element %d = %.10Lg%+.10Lgi, dense definition gives %.10Lg%+.10Lgi (tol %.2Le)", mode, ts, ar, ai, br, bi, incx, incy, i, got.re, got.im, ref.re, ref.im, tol); }
            hx_free(acc); hx_free(den);
        }
        /* elements of y between the strides / in the padding must be untouched */
        if (!strcmp(mode, "gemv") && labs(incy) > 1) for (long k = 0; k < sy; ++k) if (k % labs(incy) != 0 && memcmp((char *)yv + vt->esize * k, (char *)y0 + vt->esize * k, vt->esize)) verdict_fail("C19:y_gap_modified", "element %ld of y is not addressed by incy=%d but was modified", k, incy);
        if (!strcmp(mode, "gemm")) for (int c = 0; c < ncolB; ++c) for (int i = leny; i < ldc; ++i) if (memcmp((char *)yv + vt->esize * ((long)c * ldc + i), (char *)y0 + vt->esize * ((long)c * ldc + i), vt->esize)) verdict_fail("C19:C_padding_modified", "padding row %d of C modified", i);
        verdict_pass();
    }
    if (!strcmp(mode, "langs")) {
        const char *nm = P_str("norm", "1"); char w[32]; snprintf(w, sizeof w, "langs_%s", nm); hx_ctx_add(w);
        double got; LIB(got = vt->langs((char *)nm, &M->A));
        ld ref = 0;
        if (nm[0] == 'M') { for (long p = 0; p < M->nnz; ++p) { ld a = zq_abs(M->cval[p]); if (a > ref) ref = a; } }
        else if (nm[0] == '1' || nm[0] == 'O') { for (int j = 0; j < n; ++j) { ld s = 0; for (long p = M->cptr[j]; p < M->cptr[j + 1]; ++p) s += zq_abs(M->cval[p]); if (s > ref) ref = s; } }
        else if (nm[0] == 'I') { ld *rw = hx_calloc(m + 1, sizeof(ld)); for (long p = 0; p < M->nnz; ++p) rw[M->cind[p]] += zq_abs(M->cval[p]); for (int i = 0; i < m; ++i) if (rw[i] > ref) ref = rw[i]; hx_free(rw); }
        else { ld s = 0; for (long p = 0; p < M->nnz; ++p) { ld a = zq_abs(M->cval[p]); s += a * a; } ref = sqrtl(s); }
        if (m == 0 || n == 0) ref = 0;
        if (!(fabsl((ld)got - ref) <= (m + n + 2) * ceps * ref)) verdict_fail("C19:norm_wrong", "?langs('%s') = %.12g, exact %.12Lg", nm, got, ref);
        verdict_pass();
    }
    if (!strcmp(mode, "convert")) {
        /* row-wise arrays -> column-wise, copy, permuted view: the set of (i,j,value) must be preserved */
        if (!M->stype) {
            SuperMatrix Bm; void *bv = hx_malloc(vt->esize * (M->nnz + 1)); int_t *bi = hx_malloc(sizeof(int_t) * (M->nnz + 1)), *bp = hx_malloc(sizeof(int_t) * (n + 1));
            NCformat st = { 0, bv, bi, bp }; Bm.Stype = SLU_NC; Bm.Dtype = vt->dtype; Bm.Mtype = SLU_GE; Bm.nrow = m; Bm.ncol = n; Bm.Store = &st;
            uint64_t hA = hash_supermatrix_nc(vt, &M->A);
            LIB(vt->copy_compcol(&M->A, &Bm));
            if (hash_supermatrix_nc(vt, &M->A) != hA) verdict_fail("C19:copy_modified_source", "?Copy_CompCol_Matrix changed its source");
            if (st.nnz != M->nnz || memcmp(bp, M->ptr, sizeof(int_t) * (n + 1)) || memcmp(bi, M->ind, sizeof(int_t) * M->nnz) || memcmp(bv, M->val, vt->esize * M->nnz)) verdict_fail("C19:copy_differs", "?Copy_CompCol_Matrix did not reproduce the matrix");
            hx_ctx_add("copy"); verdict_pass();
        }
        void *at; int_t *ri, *cp; uint64_t hA = hash_supermatrix_nc(vt, &M->A);
        LIB(vt->comprow_to_compcol(m, n, (int_t)M->nnz, M->val, M->ind, M->ptr, &at, &ri, &cp));
        if (hash_supermatrix_nc(vt, &M->A) != hA) verdict_fail("C19:convert_modified_source", "?CompRow_to_CompCol changed its source");
        if (cp[0] != 0 || cp[n] != M->nnz) verdict_fail("C19:convert_colptr", "colptr[0]=%d colptr[n]=%d nnz=%ld", (int)cp[0], (int)cp[n], M->nnz);
        /* compare with the harness' own CSC (same stable order is not required: compare as multisets per column) */
        for (int j = 0; j < n; ++j) { long a0 = cp[j], a1 = cp[j + 1], b0 = M->cptr[j], b1 = M->cptr[j + 1];
            if (a1 - a0 != b1 - b0) verdict_fail("C19:convert_column_count", "column %d has %ld entries after conversion, expected %ld", j, a1 - a0, b1 - b0);
            char *used = hx_calloc(b1 - b0 + 1, 1);
            for (long p = a0; p < a1; ++p) { zq v; el_get(vt, at, p, &v.re, &v.im); int found = 0; for (long q = b0; q < b1; ++q) if (!used[q - b0] && M->cind[q] == ri[p] && M->cval[q].re == v.re && M->cval[q].im == v.im) { used[q - b0] = 1; found = 1; break; }
                if (!found) verdict_fail("C19:convert_entry_lost", "entry (%d,%d) after conversion is not in the source", (int)ri[p], j); }
            hx_free(used); }
        g_track = 1; superlu_free(at); superlu_free(ri); superlu_free(cp); g_track = 0;
        hx_ctx_add("convert"); verdict_pass();
    }
    verdict_skip("unknown C19 mode");
}

/* ================================================================== C20 */
void prop_C20(void)
{
    const slu_vt *vt = vt_of(P_str("prec", "d")[0]);
    const char *fmt = P_str("format", "hb");
    g_exit_policy = EXITPOL_VIOLATION;
    if (!G->blob) verdict_skip("no file body");
    int fd = memfd_create("hxfile", 0); if (fd < 0) verdict_skip("memfd");
    ssize_t w = write(fd, G->blob, G->bloblen); (void)w; lseek(fd, 0, SEEK_SET);
    char path[64]; snprintf(path, sizeof path, "/proc/self/fd/%d", fd);
    if (!freopen(path, "r", stdin)) verdict_skip("freopen");
    int_t m = -1, n = -1, nnz = -1; void *val = NULL; int_t *ri = NULL, *cp = NULL;
    { char wd[32]; snprintf(wd, sizeof wd, "mxtype_%s", P_str("mxtype", "RUA")); hx_ctx_add(wd); }
    g_phase = "reader";
    if (!strcmp(fmt, "hb")) LIB(vt->readhb(&m, &n, &nnz, &val, &ri, &cp));
    else if (!strcmp(fmt, "rb")) LIB(vt->readrb(&m, &n, &nnz, &val, &ri, &cp));
    else LIB(vt->readmt(&m, &n, &nnz, &val, &ri, &cp));
    int em = (int)P_int("m", 0), en = (int)P_int("n", 0); long ennz = G->ne;
    feat("n", en); feat("nnz", (double)ennz);
    if (m != em || n != en) verdict_fail("C20:dimensions", "reader returned %dx%d, file encodes %dx%d", (int)m, (int)n, em, en);
    if (nnz != ennz) verdict_fail("C20:nnz", "reader returned nnz=%d, file encodes %ld", (int)nnz, ennz);
    if (!cp || !ri || (ennz && !val)) verdict_fail("C20:null_arrays", "reader returned NULL arrays");
    if (cp[0] != 0 || cp[n] != nnz) verdict_fail("C20:colptr_ends", "colptr[0]=%d colptr[n]=%d nnz=%d", (int)cp[0], (int)cp[n], (int)nnz);
    /* expected entries are given in file order (column by column) */
    long k = 0; int pattern_only = (int)P_int("pattern_only", 0);
    for (int j = 0; j < n; ++j) {
        if (cp[j + 1] < cp[j]) verdict_fail("C20:colptr_not_monotone", "colptr[%d]=%d > colptr[%d]=%d", j, (int)cp[j], j + 1, (int)cp[j + 1]);
        for (long p = cp[j]; p < cp[j + 1]; ++p, ++k) {
            if (k >= ennz || G->ej[k] != j) verdict_fail("C20:column_content", "column %d has more entries than encoded", j);
            if (ri[p] != G->ei[k]) verdict_fail("C20:row_index", "entry %ld: row index %d, file encodes %d (column %d)", k, (int)ri[p], G->ei[k], j);
            if (!pattern_only) { zq v; el_get(vt, val, p, &v.re, &v.im); ld er = vt->is_single ? (ld)(float)G->er[k] : (ld)G->er[k], ei = vt->is_single ? (ld)(float)G->ei_im[k] : (ld)G->ei_im[k]; if (!vt->is_complex) ei = 0;
                if (v.re != er || v.im != ei) verdict_fail("C20:value", "entry (%d,%d): value %.17Lg%+.17Lgi, printed decimal is %.17Lg%+.17Lgi", (int)ri[p], j, v.re, v.im, er, ei); }
        }
    }
    if (k != ennz) verdict_fail("C20:entries_missing", "%ld entries returned, %ld encoded", k, ennz);
    g_track = 1; superlu_free(val); superlu_free(ri); superlu_free(cp); g_track = 0;
    verdict_pass();
}
