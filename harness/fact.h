/* fact.h — shared factor/solve oracles used by several properties */
#ifndef FACT_H
#define FACT_H
#include "hx.h"

typedef struct {
    const slu_vt *vt; hx_matrix *M; int n;
    int_t *perm_c, *perm_r;
    SuperMatrix L, U;
    int_t info;
    dense_lu *D;
    int have_LU;
} fact_t_;

/* column ordering from the case: "order" = 0..3 (get_perm_c) or "user" (explicit pc list) */
void case_order(hx_matrix *M, int_t *perm_c);

/* factored matrix F as seen by the factorization: F = A (NC) or A^T (NR), CSC in extended precision */
typedef struct { int n; int_t *ptr, *ind; zq *val; } csc_q;
csc_q factored_view(hx_matrix *M);          /* shares or builds arrays; free with free_csc_q when .own */
void free_csc_q(csc_q *F);

/* |Pr*F*Pc - L*U| <= slack*gamma(n+1)*|L||U| ; returns 0 ok, else fills msg */
int check_reconstruction(const slu_vt *vt, csc_q *F, dense_lu *D, const int_t *perm_r, const int_t *perm_c, char *msg, size_t n);
/* multiplier bound and pivot policy; u = threshold; usepr: skip diagonal preference */
int check_pivot_policy(const slu_vt *vt, dense_lu *D, const int_t *perm_r, const int_t *perm_c, double u, int usepr, int symmetric_expect,
                       long *ambiguous, long *offdiag, long *diag_kept, char *msg, size_t n);
/* componentwise residual of op(F)*X = B against gamma(3n+2)*(..|L||U|..)|X| ; op: 0 N, 1 T, 2 C */
int check_residual(const slu_vt *vt, csc_q *F, dense_lu *D, const int_t *perm_r, const int_t *perm_c, int op,
                   const void *X, int ldx, const void *B0, int ldb, int nrhs, double *worst_ratio, char *msg, size_t n);
/* plain componentwise backward error max_i |b-op(F)x|_i / (|op(F)||x|+|b|)_i for column k */
ld backward_error(const slu_vt *vt, csc_q *F, int op, const void *X, int ldx, const void *B0, int ldb, int k);
ld backward_error_add(const slu_vt *vt, csc_q *F, int op, const void *X, int ldx, const void *B0, int ldb, int k, int *ntiny);

void features_of_matrix(hx_matrix *M);
void features_of_LU(dense_lu *D, const int_t *perm_r, const int_t *perm_c);
#endif
